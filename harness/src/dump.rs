//! Dump of the tables of a real `Fsm` (public fields only) in the wire format of the `int` driver
//! family (see lean/Driver/Int.lean), so that the Lean model interprets exactly what the real
//! interpreter interprets.
use crate::proto::{hex_many, hexs, nat_list};
use rufsm::datamodel::{Data, ToAny};
use rufsm::executable_content::*;
use rufsm::fsm::{CommonContent, Fsm, HistoryType, Parameter, TransitionType};

fn dtext(d: &Data) -> String {
    d.to_string()
}

fn params(ps: &Option<Vec<Parameter>>) -> String {
    match ps {
        None => ".".to_string(),
        Some(v) if v.is_empty() => ".".to_string(),
        Some(v) => v
            .iter()
            .map(|p| format!("{}:{}:{}", hexs(&p.name), hexs(&p.expr), hexs(&p.location)))
            .collect::<Vec<_>>()
            .join("/"),
    }
}

fn content(c: &Option<CommonContent>) -> String {
    match c {
        None => "0,!,!".replace(',', "~"),
        Some(cc) => format!(
            "1~{}~{}",
            cc.content.as_ref().map(|s| hexs(s)).unwrap_or("!".to_string()),
            cc.content_expr.as_ref().map(|s| hexs(s)).unwrap_or("!".to_string())
        ),
    }
}

pub fn item(e: &dyn ExecutableContent) -> String {
    let any = e.as_any();
    match e.get_type() {
        TYPE_IF => {
            let x = any.downcast_ref::<If>().unwrap();
            format!("if~{}~{}~{}", hexs(&dtext(&x.condition)), x.content, x.else_content)
        }
        TYPE_EXPRESSION => {
            let x = any.downcast_ref::<Expression>().unwrap();
            format!("expr~{}", hexs(&dtext(&x.content)))
        }
        TYPE_SCRIPT => {
            let x = any.downcast_ref::<Script>().unwrap();
            format!("script~{}", nat_list(&x.content).replace(',', "/"))
        }
        TYPE_LOG => {
            let x = any.downcast_ref::<Log>().unwrap();
            format!("log~{}~{}", hexs(&x.label), hexs(&dtext(&x.expression)))
        }
        TYPE_FOREACH => {
            let x = any.downcast_ref::<ForEach>().unwrap();
            format!("foreach~{}~{}~{}~{}", hexs(&dtext(&x.array)), hexs(&x.item), hexs(&x.index), x.content)
        }
        TYPE_SEND => {
            let x = any.downcast_ref::<SendParameters>().unwrap();
            format!(
                "send~{}~{}~{}~{}~{}~{}~{}~{}~{}~{}~{}~{}~{}~{}",
                hexs(&x.name_location),
                hexs(&x.name),
                hexs(&x.parent_state_name),
                hexs(&dtext(&x.event)),
                hexs(&dtext(&x.event_expr)),
                hexs(&dtext(&x.target)),
                hexs(&dtext(&x.target_expr)),
                hexs(&dtext(&x.type_value)),
                hexs(&dtext(&x.type_expr)),
                x.delay_ms,
                hexs(&dtext(&x.delay_expr)),
                hex_many(&x.name_list).replace(',', "/"),
                params(&x.params),
                content(&x.content)
            )
        }
        TYPE_RAISE => {
            let x = any.downcast_ref::<Raise>().unwrap();
            format!("raise~{}", hexs(&x.event))
        }
        TYPE_CANCEL => {
            let x = any.downcast_ref::<Cancel>().unwrap();
            format!("cancel~{}~{}", hexs(&x.send_id), hexs(&dtext(&x.send_id_expr)))
        }
        TYPE_ASSIGN => {
            let x = any.downcast_ref::<Assign>().unwrap();
            format!("assign~{}~{}", hexs(&dtext(&x.location)), hexs(&dtext(&x.expr)))
        }
        t => format!("unknown{}", t),
    }
}

fn ids(v: &[u32]) -> String {
    nat_list(v).replace(',', "/")
}

pub fn dump(fsm: &Fsm) -> String {
    let mut recs: Vec<String> = Vec::new();
    recs.push(format!(
        "H,{},{},{}",
        fsm.pseudo_root,
        if fsm.binding == rufsm::fsm::BindingType::Late { 1 } else { 0 },
        fsm.script
    ));
    for s in &fsm.states {
        let trans: Vec<u32> = s.transitions.iterator().cloned().collect();
        let hist: Vec<u32> = s.history.iterator().cloned().collect();
        let invokes = {
            let v: Vec<String> = s
                .invoke
                .iterator()
                .map(|i| {
                    format!(
                        "{}:{}:{}:{}:{}",
                        i.doc_id,
                        if i.autoforward { 1 } else { 0 },
                        i.finalize,
                        hexs(&i.invoke_id),
                        if i.name_list.is_empty() { ".".to_string() } else { i.name_list.iter().map(|n| hexs(n)).collect::<Vec<_>>().join("+") }
                    )
                })
                .collect();
            if v.is_empty() {
                ".".to_string()
            } else {
                v.join("/")
            }
        };
        recs.push(format!(
            "S,{},{},{},{},{},{},{},{},{},{},{},{},{},{}",
            s.id,
            s.doc_id,
            hexs(&s.name),
            s.parent,
            ids(&s.states),
            if s.is_parallel { 1 } else { 0 },
            if s.is_final { 1 } else { 0 },
            match s.history_type {
                HistoryType::None => 0,
                HistoryType::Shallow => 1,
                HistoryType::Deep => 2,
            },
            s.initial,
            ids(&trans),
            ids(&s.onentry),
            ids(&s.onexit),
            ids(&hist),
            invokes
        ));
        if !s.data.is_empty() {
            let mut decls: Vec<(String, String)> = s
                .data
                .iter()
                .map(|(k, v)| (k.clone(), v.lock().map(|g| dtext(&g)).unwrap_or_default()))
                .collect();
            decls.sort();
            recs.push(format!(
                "D,{},{}",
                s.id,
                decls.iter().map(|(k, v)| format!("{}={}", hexs(k), hexs(v))).collect::<Vec<_>>().join("/")
            ));
        }
        if let Some(dd) = &s.donedata {
            recs.push(format!("N,{},{},{}", s.id, params(&dd.params), content(&dd.content).replace('~', ",")));
        }
    }
    let mut tids: Vec<&u32> = fsm.transitions.keys().collect();
    tids.sort();
    for tid in tids {
        let t = &fsm.transitions[tid];
        let cond = if t.cond.is_empty() { String::new() } else { dtext(&t.cond) };
        recs.push(format!(
            "T,{},{},{},{},{},{},{},{},{}",
            t.id,
            t.doc_id,
            hex_many(&t.events).replace(',', "/"),
            if t.wildcard { 1 } else { 0 },
            hexs(&cond),
            t.source,
            ids(&t.target),
            if t.transition_type == TransitionType::Internal { 1 } else { 0 },
            t.content
        ));
    }
    let mut rids: Vec<&u32> = fsm.executableContent.keys().collect();
    rids.sort();
    for rid in rids {
        let items: Vec<String> = fsm.executableContent[rid].iter().map(|e| item(e.as_ref())).collect();
        recs.push(format!("R,{},{}", rid, if items.is_empty() { ".".to_string() } else { items.join(";") }));
    }
    recs.join("|")
}
