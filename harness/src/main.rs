#![allow(dead_code)]
//! vharness — correspondence checks between the Lean models and the real rufsm crate.
//! usage: vharness <family> --model <rfsm_model> --out <report.json> [--tier quick|thorough]
//!                 [--seed N] [--replay file]
mod c19;
mod c12;
mod c14;
mod c15real;
mod c03real;
mod slowproc;
mod sysvars;
mod content;
mod dump;
mod gen_doc;
mod int;
mod vdm;
mod http;
mod locks;
mod reader;
mod conc;
mod expr;
mod codec;
mod obs;
mod prng;
mod proto;
mod report;
mod timer;

pub struct Args {
    pub family: String,
    pub model: String,
    pub out: String,
    pub thorough: bool,
    pub seed: u64,
    pub replay: Option<String>,
    pub extra: Vec<String>,
}

fn parse_args() -> Args {
    let av: Vec<String> = std::env::args().collect();
    if av.len() < 2 {
        eprintln!("usage: vharness <family> --model P --out F [--tier quick|thorough] [--seed N] [--replay F]");
        std::process::exit(2);
    }
    let mut a = Args {
        family: av[1].clone(),
        model: String::new(),
        out: String::new(),
        thorough: false,
        seed: 1,
        replay: None,
        extra: vec![],
    };
    let mut i = 2;
    while i < av.len() {
        match av[i].as_str() {
            "--model" => {
                a.model = av[i + 1].clone();
                i += 2;
            }
            "--out" => {
                a.out = av[i + 1].clone();
                i += 2;
            }
            "--tier" => {
                a.thorough = av[i + 1] == "thorough";
                i += 2;
            }
            "--seed" => {
                a.seed = av[i + 1].parse().unwrap_or(1);
                i += 2;
            }
            "--replay" => {
                a.replay = Some(av[i + 1].clone());
                i += 2;
            }
            x => {
                a.extra.push(x.to_string());
                i += 1;
            }
        }
    }
    a
}

fn main() {
    // panics of session threads are observed through JoinHandle; keep stderr quiet
    if std::env::var("VH_DEBUG").is_err() { std::panic::set_hook(Box::new(|_| {})); }
    let args = parse_args();
    if args.family == "gencase" {
        // vharness gencase --seed S <prop> <index>: print the generated case (debugging aid)
        let prop = args.extra.first().cloned().unwrap_or("C01".to_string());
        let idx: u64 = args.extra.get(1).and_then(|s| s.parse().ok()).unwrap_or(0);
        let (c, _) = int::gen_case(&prop, args.seed, idx);
        println!("{}", serde_json::json!({"xml": c.xml, "events": c.events, "single": c.single, "child": c.child}));
        return;
    }
    if args.family == "c12-one" {
        c12::main_one(&args.extra);
        return;
    }
    let mut model = proto::Model::spawn(&args.model);
    let mut rep = match args.family.as_str() {
        "c19" => c19::run(&args, &mut model),
        "c01" => int::run(&args, &mut model, "C01"),
        "c02" => int::run(&args, &mut model, "C02"),
        "c03" => {
            let mut r = int::run(&args, &mut model, "C03");
            if args.replay.is_none() {
                c03real::run(&mut r);
            }
            r
        }
        "c06" => int::run(&args, &mut model, "C06"),
        "c07" => int::run(&args, &mut model, "C07"),
        "c09" => {
            // In() / late binding under the interpreter model (vdm trace equality), then the real data models
            let mut r = int::run(&args, &mut model, "C09");
            sysvars::run_real(&args, &mut r);
            r
        }
        "c08" => {
            // vdm-driven trace correspondence of executable_content.rs, then the real data models
            let mut r = int::run(&args, &mut model, "C08");
            content::run_real(&args, &mut r);
            r
        }
        "c12" => {
            // interpreter model vs implementation on documents full of evaluation errors (no panic,
            // no hang, same observations), then the scenario table on the real data models
            let scenario_replay = args.replay.as_ref().map(|p| c12::is_scenario_replay(p)).unwrap_or(false);
            let mut r = if scenario_replay {
                report::Report::new("c12", "scenario replay")
            } else {
                int::run(&args, &mut model, "C12")
            };
            c12::run_real(&args, &mut r);
            r
        }
        "c14" => c14::run(&args, &mut model),
        "c20" => http::run(&args, &mut model),
        "c16" => {
            let mut r = timer::run(&args, &mut model);
            if args.replay.is_none() {
                slowproc::run("C16", &mut r);
            }
            r
        }
        "c17" => locks::run(&args, &mut model),
        "c04" => reader::run(&args, &mut model),
        "c13" => {
            let mut r = conc::run_c13(&args, &mut model);
            if args.replay.is_none() {
                slowproc::run("C13", &mut r);
            }
            r
        }
        "c15" => {
            let mut r = conc::run_c15(&args, &mut model);
            if args.replay.is_none() {
                c15real::run(&mut r);
            }
            r
        }
        "c10" | "c11" | "expr-child" => expr::run(&args, &mut model),
        "c05" | "c18" => codec::run(&args, &mut model),
        f => {
            eprintln!("unknown family {}", f);
            std::process::exit(2);
        }
    };
    rep.model_requests = model.requests;
    rep.write(&args.out);
    println!(
        "family={} evaluations={} disagreements={} oracle_failures={}",
        rep.family,
        rep.evaluations,
        rep.disagreements.len(),
        rep.oracle_failures.len()
    );
}
