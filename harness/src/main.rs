#![allow(dead_code)]
//! vharness — correspondence checks between the Lean models and the real rufsm crate.
//! usage: vharness <family> --model <rfsm_model> --out <report.json> [--tier quick|thorough]
//!                 [--seed N] [--replay file]
mod c19;
mod codec;
mod obs;
mod prng;
mod proto;
mod report;

pub struct Args {
    pub family: String,
    pub model: String,
    pub out: String,
    pub thorough: bool,
    pub seed: u64,
    pub replay: Option<String>,
    pub extra: Vec<String>,
}

fn parse_args() -> Args {
    let av: Vec<String> = std::env::args().collect();
    if av.len() < 2 {
        eprintln!("usage: vharness <family> --model P --out F [--tier quick|thorough] [--seed N] [--replay F]");
        std::process::exit(2);
    }
    let mut a = Args {
        family: av[1].clone(),
        model: String::new(),
        out: String::new(),
        thorough: false,
        seed: 1,
        replay: None,
        extra: vec![],
    };
    let mut i = 2;
    while i < av.len() {
        match av[i].as_str() {
            "--model" => {
                a.model = av[i + 1].clone();
                i += 2;
            }
            "--out" => {
                a.out = av[i + 1].clone();
                i += 2;
            }
            "--tier" => {
                a.thorough = av[i + 1] == "thorough";
                i += 2;
            }
            "--seed" => {
                a.seed = av[i + 1].parse().unwrap_or(1);
                i += 2;
            }
            "--replay" => {
                a.replay = Some(av[i + 1].clone());
                i += 2;
            }
            x => {
                a.extra.push(x.to_string());
                i += 1;
            }
        }
    }
    a
}

fn main() {
    // panics of session threads are observed through JoinHandle; keep stderr quiet
    std::panic::set_hook(Box::new(|_| {}));
    let args = parse_args();
    let mut model = proto::Model::spawn(&args.model);
    let mut rep = match args.family.as_str() {
        "c19" => c19::run(&args, &mut model),
        "c05" | "c18" => codec::run(&args, &mut model),
        f => {
            eprintln!("unknown family {}", f);
            std::process::exit(2);
        }
    };
    rep.model_requests = model.requests;
    rep.write(&args.out);
    println!(
        "family={} evaluations={} disagreements={} oracle_failures={}",
        rep.family,
        rep.evaluations,
        rep.disagreements.len(),
        rep.oracle_failures.len()
    );
}
