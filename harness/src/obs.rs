//! Observation of the real interpreter through its public API: a recording `Tracer`,
//! and a helper that runs one session over a pre-queued event sequence.
use rufsm::actions::ActionWrapper;
use rufsm::fsm::{self, Event, FinishMode, Fsm, State, EVENT_CANCEL_SESSION};
use rufsm::fsm_executor::FsmExecutor;
use rufsm::tracer::{TraceMode, Tracer, TracerFactory};
use std::fmt::{Debug, Display};
use std::sync::{Arc, Mutex};
use std::time::{Duration, Instant};

pub type Log = Arc<Mutex<Vec<String>>>;

/// Records every tracer call as one line.
pub struct RecTracer {
    pub log: Log,
    /// record method enter/exit, arguments and results too
    pub verbose: bool,
    /// sleep this long when `interpret` is entered (widens the window in which a session is
    /// registered with the executor but has not started to run)
    pub start_delay_ms: u64,
}

impl Debug for RecTracer {
    fn fmt(&self, f: &mut std::fmt::Formatter<'_>) -> std::fmt::Result {
        write!(f, "RecTracer")
    }
}

impl RecTracer {
    pub fn new(verbose: bool) -> (RecTracer, Log) {
        let log: Log = Arc::new(Mutex::new(Vec::new()));
        (RecTracer { log: log.clone(), verbose, start_delay_ms: 0 }, log)
    }
    fn push(&self, s: String) {
        let mut g = self.log.lock().unwrap_or_else(|e| e.into_inner());
        // A document that never finishes its macrostep would spin for ever and fill the memory:
        // at the cap the recording tracer ends the session thread (the families ask the model first
        // and skip such documents; a session that gets here is reported as died / diverged).
        if g.len() >= LOG_CAP {
            drop(g);
            panic!("recording tracer: log cap reached (the session does not leave its macrostep)");
        }
        g.push(s);
    }
}

pub const LOG_CAP: usize = 2_000_000;

impl Tracer for RecTracer {
    fn trace(&self, msg: &str) {
        self.push(format!("msg {}", msg));
    }
    fn enter(&self) {}
    fn leave(&self) {}
    fn enable_trace(&mut self, _flag: TraceMode) {}
    fn disable_trace(&mut self, _flag: TraceMode) {}
    fn is_trace(&self, _flag: TraceMode) -> bool {
        true
    }
    fn enter_method(&self, what: &str) {
        if self.start_delay_ms > 0 && what == "interpret" {
            std::thread::sleep(Duration::from_millis(self.start_delay_ms));
        }
        if self.verbose {
            self.push(format!("m> {}", what));
        }
    }
    fn exit_method(&self, what: &str) {
        if self.verbose {
            self.push(format!("m< {}", what));
        }
    }
    fn event_internal_send(&self, what: &Event) {
        self.push(format!("isend {}", what.name));
    }
    fn event_internal_received(&self, what: &Event) {
        self.push(format!("int {}", what.name));
    }
    fn event_external_send(&self, what: &Event) {
        self.push(format!("esend {}", what.name));
    }
    fn event_external_received(&mut self, what: &Event) {
        self.push(format!("ext {}", what.name));
    }
    fn trace_state(&self, what: &str, s: &State) {
        self.push(format!("{} {}", what.to_lowercase(), s.id));
    }
    fn trace_argument(&self, what: &str, d: &dyn Display) {
        if self.verbose {
            self.push(format!("arg {}={}", what, d));
        }
    }
    fn trace_result(&self, what: &str, d: &dyn Display) {
        if self.verbose {
            self.push(format!("res {}={}", what, d));
        }
    }
    fn trace_mode(&self) -> TraceMode {
        TraceMode::ALL
    }
}

/// Factory handing out recording tracers that all append to per-session logs (for child sessions).
pub struct RecTracerFactory {
    pub logs: Arc<Mutex<Vec<Log>>>,
    pub verbose: bool,
}

impl TracerFactory for RecTracerFactory {
    fn create(&mut self) -> Box<dyn Tracer> {
        let (t, log) = RecTracer::new(self.verbose);
        self.logs.lock().unwrap().push(log);
        Box::new(t)
    }
}

pub struct RunOut {
    /// names of the events the session sent to its (simulated) parent session
    pub parent_inbox: Vec<String>,
    pub trace: Vec<String>,
    pub panicked: bool,
    pub timed_out: bool,
    pub final_configuration: Option<Vec<String>>,
}

/// Starts `fsm` as a real session (real executor, real SCXML I/O processor), queues `events`
/// followed by the platform cancel event, and waits for the session thread to end.
pub fn run_session(
    mut fsm: Box<Fsm>,
    events: &[Event],
    actions: ActionWrapper,
    verbose: bool,
    timeout: Duration,
    send_cancel: bool,
) -> RunOut {
    run_session_opts(fsm, events, actions, verbose, timeout, send_cancel, false)
}

/// as `run_session`; with `vdm = true` the verification data model (harness/src/vdm.rs) created
/// for the session reports into the same log as the tracer
pub fn run_session_opts(
    mut fsm: Box<Fsm>,
    events: &[Event],
    actions: ActionWrapper,
    verbose: bool,
    timeout: Duration,
    send_cancel: bool,
    vdm: bool,
) -> RunOut {
    let (tracer, log) = RecTracer::new(verbose);
    fsm.tracer = Box::new(tracer);
    let executor = FsmExecutor::new_without_io_processor();
    let mut vdm_id = None;
    if vdm {
        let id = crate::vdm::register_log(&log);
        executor.state.lock().unwrap().datamodel_options.insert(crate::vdm::OPT_LOG.to_string(), id.clone());
        vdm_id = Some(id);
    }
    let mut session = fsm::start_fsm_with_data_and_finish_mode(
        fsm,
        actions,
        Box::new(executor.clone()),
        &[],
        FinishMode::KEEP_CONFIGURATION,
    );
    for e in events {
        let _ = session.sender.send(e.get_copy());
    }
    if send_cancel {
        let _ = session.sender.send(Box::new(Event::new_simple(EVENT_CANCEL_SESSION)));
    }
    let handle = session.thread.take().unwrap();
    let start = Instant::now();
    let mut timed_out = false;
    while !handle.is_finished() {
        if start.elapsed() > timeout {
            timed_out = true;
            break;
        }
        std::thread::sleep(Duration::from_micros(200));
    }
    let mut panicked = false;
    if !timed_out {
        panicked = handle.join().is_err();
    }
    let final_configuration = match session.global_data.lock() {
        Ok(g) => g.final_configuration.clone(),
        Err(p) => p.into_inner().final_configuration.clone(),
    };
    let trace = log.lock().unwrap_or_else(|e| e.into_inner()).clone();
    if let Some(id) = vdm_id {
        crate::vdm::unregister_log(&id);
    }
    RunOut { parent_inbox: vec![], trace, panicked, timed_out, final_configuration }
}

/// Starts `fsm` as a real session and delivers the event batches one after the other: batch `i`
/// is sent once the session has blocked on its external queue `idle_before[i]` times (the number
/// the model predicts), i.e. while it is idle with an empty queue.  Events the session sends to
/// itself therefore interleave deterministically with the batches.
pub fn run_session_feed(
    fsm: Box<Fsm>,
    batches: &[Vec<Event>],
    idle_before: &[usize],
    verbose: bool,
    timeout: Duration,
    vdm: bool,
) -> RunOut {
    run_session_feed_with(fsm, batches, idle_before, verbose, timeout, vdm, |_log| ActionWrapper::new(), &[])
}

/// Custom action that records its (first) argument and the current configuration into the
/// session's observation log: `mark <arg> cfg=<ids>`.  Callable from rfsm-expression and
/// ECMAScript content as `mark(x)`.
pub struct MarkAction {
    pub log: Log,
}

impl rufsm::actions::Action for MarkAction {
    fn execute(&self, arguments: &[rufsm::datamodel::Data], global: &rufsm::fsm::GlobalData) -> Result<rufsm::datamodel::Data, String> {
        let a = arguments.iter().map(|d| d.to_string()).collect::<Vec<_>>().join("|");
        let cfg: Vec<String> = global.configuration.iterator().map(|x| x.to_string()).collect();
        self.log.lock().unwrap_or_else(|e| e.into_inner()).push(format!("mark {} cfg={}", a, cfg.join(",")));
        Ok(rufsm::datamodel::Data::Integer(0))
    }
    fn get_copy(&self) -> Box<dyn rufsm::actions::Action> {
        Box::new(MarkAction { log: self.log.clone() })
    }
}

pub fn mark_actions(log: &Log) -> ActionWrapper {
    let mut a = ActionWrapper::new();
    a.add_action("mark", Box::new(MarkAction { log: log.clone() }));
    a
}

/// id of the simulated parent session used when a machine is run "as an invoked child"
pub const FAKE_PARENT: u32 = 4_000_000;

/// as `run_session_feed_with`, but the machine runs as the child of a simulated parent session
/// (registered in the executor under `FAKE_PARENT`) that invoked it under `invoke_id`; what the
/// child sends to its parent (done.invoke.<id>, `#_parent` sends) is collected in `parent_inbox`
pub fn run_child_session_feed(
    mut fsm: Box<Fsm>,
    invoke_id: &str,
    batches: &[Vec<Event>],
    idle_before: &[usize],
    timeout: Duration,
    vdm: bool,
) -> RunOut {
    fsm.caller_invoke_id = Some(invoke_id.to_string());
    fsm.parent_session_id = Some(FAKE_PARENT);
    let (tx, rx) = std::sync::mpsc::channel::<Box<Event>>();
    let mut out = run_session_feed_inner(fsm, batches, idle_before, true, timeout, vdm, |_l| ActionWrapper::new(), &[], Some(tx));
    while let Ok(e) = rx.try_recv() {
        out.parent_inbox.push(e.name.clone());
    }
    out
}

pub fn run_session_feed_with(
    fsm: Box<Fsm>,
    batches: &[Vec<Event>],
    idle_before: &[usize],
    verbose: bool,
    timeout: Duration,
    vdm: bool,
    make_actions: impl FnOnce(&Log) -> ActionWrapper,
    options: &[(String, String)],
) -> RunOut {
    run_session_feed_inner(fsm, batches, idle_before, verbose, timeout, vdm, make_actions, options, None)
}

#[allow(clippy::too_many_arguments)]
fn run_session_feed_inner(
    mut fsm: Box<Fsm>,
    batches: &[Vec<Event>],
    idle_before: &[usize],
    verbose: bool,
    timeout: Duration,
    vdm: bool,
    make_actions: impl FnOnce(&Log) -> ActionWrapper,
    options: &[(String, String)],
    fake_parent: Option<std::sync::mpsc::Sender<Box<Event>>>,
) -> RunOut {
    let (tracer, log) = RecTracer::new(verbose);
    fsm.tracer = Box::new(tracer);
    let executor = FsmExecutor::new_without_io_processor();
    if let Some(tx) = fake_parent {
        let parent = rufsm::fsm::ScxmlSession::new_without_join_handle(FAKE_PARENT, tx);
        executor.state.lock().unwrap().sessions.insert(FAKE_PARENT, parent);
    }
    for (k, v) in options {
        executor.state.lock().unwrap().datamodel_options.insert(k.clone(), v.clone());
    }
    let mut vdm_id = None;
    if vdm {
        let id = crate::vdm::register_log(&log);
        executor.state.lock().unwrap().datamodel_options.insert(crate::vdm::OPT_LOG.to_string(), id.clone());
        vdm_id = Some(id);
    }
    let actions = make_actions(&log);
    let mut session = fsm::start_fsm_with_data_and_finish_mode(
        fsm,
        actions,
        Box::new(executor.clone()),
        &[],
        FinishMode::KEEP_CONFIGURATION,
    );
    let handle = session.thread.take().unwrap();
    let start = Instant::now();
    let mut timed_out = false;
    let mut seen = 0usize; // log lines scanned
    let mut idles = 0usize;
    'outer: for (i, b) in batches.iter().enumerate() {
        let need = *idle_before.get(i).unwrap_or(&usize::MAX);
        loop {
            {
                let g = log.lock().unwrap_or_else(|e| e.into_inner());
                while seen < g.len() {
                    if g[seen] == "m> externalQueue.dequeue" {
                        idles += 1;
                    }
                    seen += 1;
                }
            }
            if idles >= need {
                break;
            }
            if handle.is_finished() {
                break 'outer;
            }
            if start.elapsed() > timeout {
                timed_out = true;
                break 'outer;
            }
            std::thread::sleep(Duration::from_micros(100));
        }
        for e in b {
            let _ = session.sender.send(e.get_copy());
        }
    }
    while !timed_out && !handle.is_finished() {
        if start.elapsed() > timeout {
            timed_out = true;
            break;
        }
        std::thread::sleep(Duration::from_micros(200));
    }
    let mut panicked = false;
    if !timed_out {
        panicked = handle.join().is_err();
    }
    let final_configuration = match session.global_data.lock() {
        Ok(g) => g.final_configuration.clone(),
        Err(p) => p.into_inner().final_configuration.clone(),
    };
    let trace = log.lock().unwrap_or_else(|e| e.into_inner()).clone();
    if let Some(id) = vdm_id {
        crate::vdm::unregister_log(&id);
    }
    RunOut { parent_inbox: vec![], trace, panicked, timed_out, final_configuration }
}

/// XML attribute escaping for generated documents.
pub fn xml_attr(s: &str) -> String {
    let mut o = String::new();
    for c in s.chars() {
        match c {
            '&' => o.push_str("&amp;"),
            '<' => o.push_str("&lt;"),
            '>' => o.push_str("&gt;"),
            '"' => o.push_str("&quot;"),
            '\'' => o.push_str("&apos;"),
            _ => o.push(c),
        }
    }
    o
}
