//! C14 — invoke life cycle.
//!
//! Part 1 (model tie + statement oracles): generated parent documents over the verification data
//! model, decorated with `<invoke>` elements (inline children over rfsm-expression) and with
//! transitions on the children's events.  A random schedule sends events to the parent, pokes the
//! children directly, lets children finish, and finally cancels the parent.  The parent's trace
//! (tracer + the `Verif_Hooks` lines of the invoke life cycle) is
//!   * replayed on the Lean interpreter model: the model is fed the raw sequence of external
//!     events the real parent dequeued (name + invokeid), and the two observation streams
//!     (selections, exits, entries, content blocks, data-model calls, invoke / cancel / forward /
//!     dropped) must be equal;
//!   * judged by the clauses of the statement (oracles O1..O6 below).
//! Part 2: fixed scenarios on the real data models for the clauses a vdm parent cannot show
//! (`_event.invokeid`, namelist / param values only for declared data, finalize before selection
//! with real data).
use crate::dump::dump;
use crate::gen_doc::{self, GDoc, GInvoke, GItem, GState, GTrans, Kind, Knobs};
use crate::int::parse;
use crate::obs::{mark_actions, RecTracer, RecTracerFactory};
use crate::prng::Prng;
use crate::proto::{hexs, Model};
use crate::report::Report;
use crate::Args;
use rufsm::actions::ActionWrapper;
use rufsm::fsm::{self, Event, FinishMode, EVENT_CANCEL_SESSION};
use rufsm::fsm_executor::FsmExecutor;
use serde_json::{json, Value};
use std::collections::{BTreeMap, HashMap};
use std::sync::{Arc, Mutex};
use std::time::{Duration, Instant};

pub const PARENT_EVENTS: &[&str] = &["a", "b", "c", "a.b", "d.e", "x"];
const CHILD_POKES: &[&str] = &["poke", "poke", "fin", "finmsg"];

/// the child document (it announces itself with `k.hello` while the parent may still be starting
/// further invocations — the interleaving that used to deadlock, /repo commit 1c1d11d; its final state says `k.bye` to the parent from its `onexit`, which must
/// still arrive before `done.invoke`): answers pokes, reports forwarded parent events, ends on
/// `fin` / `finmsg` (the latter with a last message)
pub fn child_xml() -> String {
    "<scxml xmlns=\"http://www.w3.org/2005/07/scxml\" version=\"1.0\" datamodel=\"rfsm-expression\" name=\"child\" initial=\"run\">\
     <state id=\"run\"><onentry><send event=\"k.hello\" target=\"#_parent\"/></onentry>\
     <transition event=\"poke\"><send event=\"k.pong\" target=\"#_parent\"/></transition>\
     <transition event=\"fin\" target=\"done\"/>\
     <transition event=\"finmsg\" target=\"done\"><send event=\"k.last\" target=\"#_parent\"/></transition>\
     <transition event=\"a b c d x\"><send event=\"k.fwd\" target=\"#_parent\"/></transition>\
     </state><final id=\"done\"><onexit><send event=\"k.bye\" target=\"#_parent\"/></onexit></final></scxml>"
        .to_string()
}

fn no_self_send(items: &mut Vec<GItem>) {
    for it in items.iter_mut() {
        match it {
            GItem::SendSelf(n) => *it = GItem::Raise(n.clone()),
            GItem::If(brs, els) => {
                for (_, b) in brs.iter_mut() {
                    no_self_send(b);
                }
                if let Some(e) = els {
                    no_self_send(e);
                }
            }
            GItem::Foreach(_, _, _, b) => no_self_send(b),
            _ => {}
        }
    }
}

fn walk<'a>(s: &'a mut GState, f: &mut dyn FnMut(&mut GState)) {
    f(s);
    for k in s.kids.iter_mut() {
        walk(k, f);
    }
}

/// adds invokes and transitions on child events to a generated document
pub fn decorate(d: &mut GDoc, p: &mut Prng) -> usize {
    let mut ids: Vec<String> = vec![];
    for k in d.kids.iter_mut() {
        walk(k, &mut |s| ids.push(s.id.clone()));
    }
    let mut n_inv = 0usize;
    let mut choices: Vec<u64> = vec![];
    for _ in 0..(ids.len() * 8 + 8) {
        choices.push(p.below(1000));
    }
    let mut ci = 0usize;
    let mut next = |m: u64| -> u64 {
        let v = choices[ci % choices.len()] % m;
        ci += 1;
        v
    };
    let ids2 = ids.clone();
    for k in d.kids.iter_mut() {
        walk(k, &mut |s| {
            for b in s.onentry.iter_mut().chain(s.onexit.iter_mut()) {
                no_self_send(b);
            }
            for t in s.trans.iter_mut() {
                no_self_send(&mut t.content);
            }
            for h in s.hist.iter_mut() {
                no_self_send(&mut h.content);
            }
            if let gen_doc::Init::Elem(_, c) = &mut s.init {
                no_self_send(c);
            }
            if s.kind == Kind::Final {
                return;
            }
            let want = match next(10) {
                0..=3 => 0,
                4..=7 => 1,
                _ => 2,
            };
            for _ in 0..want {
                if n_inv >= 6 {
                    break;
                }
                n_inv += 1;
                let fin = if next(2) == 0 {
                    Some(vec![GItem::Assign(format!("v{}", next(3)), format!("v{} + 1", next(3)))])
                } else {
                    None
                };
                // namelist: declared variables (the child declares none of them: nothing is passed), or
                // an undeclared one — the invoke is then abandoned with error.execution
                let namelist = match next(8) {
                    0 => Some("nosuchvar".to_string()),
                    1 => Some("v0 nosuchvar".to_string()),
                    2 | 3 => Some("v0 v1".to_string()),
                    _ => None,
                };
                s.invokes.push(GInvoke { id: format!("c{}", n_inv), autoforward: next(3) == 0, finalize: fin, child_xml: child_xml(), namelist });
            }
            // transitions on child events
            let nt = next(3);
            for _ in 0..nt {
                let ev = match next(6) {
                    0 => "k.hello".to_string(),
                    1 => "k.pong".to_string(),
                    2 => "k".to_string(),
                    3 => "done.invoke".to_string(),
                    4 => format!("done.invoke.c{}", 1 + next(4)),
                    _ => "k.last k.fwd".to_string(),
                };
                // a transition on the children's start-up announcement never has a target: re-entering an
                // invoking state on `k.hello` would start a child whose `k.hello` re-enters it again, for ever
                let pick = next(ids2.len() as u64) as usize;
                let targets = if next(3) == 0 || ev.starts_with("k.hello") || ev == "k" { vec![] } else { vec![ids2[pick].clone()] };
                let content = if next(2) == 0 { vec![GItem::Assign(format!("v{}", next(3)), format!("v{} + 1", next(3)))] } else { vec![] };
                s.trans.push(GTrans { events: ev.split(' ').map(|x| x.to_string()).collect(), cond: None, targets, internal: false, content });
            }
        });
    }
    n_inv
}

#[derive(Clone, Debug)]
pub enum Act {
    ToParent(String),
    ToChild(usize, String),
    Sleep(u64),
    WaitIdle,
}

pub struct Case14 {
    pub xml: String,
    pub acts: Vec<Act>,
    pub origin: String,
    pub invokes: usize,
}

pub fn gen_case(seed: u64, index: u64) -> Case14 {
    let mut p = Prng::for_case(seed, index ^ 0xC14_0000);
    let mut k = Knobs::default();
    k.max_states = 9;
    k.content_bias = 3;
    k.error_bias = 1;
    k.eventless_bias = 3;
    k.final_bias = 1;
    k.history_bias = 2;
    k.parallel_bias = 3;
    let mut d = gen_doc::gen_doc(&mut p, &k);
    let invokes = decorate(&mut d, &mut p);
    let xml = gen_doc::render(&d);
    let n = p.range(4, 16);
    let mut acts = vec![];
    for _ in 0..n {
        match p.below(10) {
            0..=3 => acts.push(Act::ToParent(p.pick(PARENT_EVENTS).to_string())),
            4..=6 => acts.push(Act::ToChild(p.below(8) as usize, p.pick(CHILD_POKES).to_string())),
            7 => acts.push(Act::Sleep(*p.pick(&[0u64, 50, 200, 1000, 3000]))),
            _ => acts.push(Act::WaitIdle),
        }
    }
    Case14 { xml, acts, origin: format!("gen c14 seed={} index={}", seed, index), invokes }
}

fn acts_json(a: &[Act]) -> Value {
    json!(a
        .iter()
        .map(|x| match x {
            Act::ToParent(n) => format!("parent:{}", n),
            Act::ToChild(k, n) => format!("child{}:{}", k, n),
            Act::Sleep(u) => format!("sleep:{}", u),
            Act::WaitIdle => "waitidle".to_string(),
        })
        .collect::<Vec<_>>())
}

fn acts_from_json(v: &Value) -> Vec<Act> {
    v.as_array()
        .map(|a| {
            a.iter()
                .filter_map(|x| {
                    let s = x.as_str()?;
                    if let Some(n) = s.strip_prefix("parent:") {
                        Some(Act::ToParent(n.to_string()))
                    } else if let Some(r) = s.strip_prefix("child") {
                        let (k, n) = r.split_once(':')?;
                        Some(Act::ToChild(k.parse().ok()?, n.to_string()))
                    } else if let Some(u) = s.strip_prefix("sleep:") {
                        Some(Act::Sleep(u.parse().ok()?))
                    } else if s == "waitidle" {
                        Some(Act::WaitIdle)
                    } else {
                        None
                    }
                })
                .collect()
        })
        .unwrap_or_default()
}

// ------------------------------------------------------------------ the real run

pub struct Run14 {
    pub doc: String,
    pub trace: Vec<String>,
    pub panicked: bool,
    pub timed_out: bool,
    /// child session ids still registered with the executor after the parent ended
    pub children_alive: Vec<u32>,
    pub child_logs: Vec<Vec<String>>,
    /// the executor's state mutex is held for good: a lock-order deadlock between a session start
    /// and a cross-session send
    pub executor_stuck: bool,
    /// every child that announced its last message had returned from `interpret` before the parent
    /// was cancelled (otherwise its done.invoke may legitimately still be on its way)
    pub last_senders_finished: bool,
}

fn unquote(s: &str) -> String {
    // Rust `{:?}` of a String with plain content
    let t = s.trim();
    let t = t.strip_prefix('"').unwrap_or(t);
    let t = t.strip_suffix('"').unwrap_or(t);
    t.replace("\\\"", "\"").replace("\\\\", "\\")
}

fn opt_unquote(s: &str) -> Option<String> {
    let t = s.trim();
    if t == "None" {
        None
    } else {
        Some(unquote(t.strip_prefix("Some(").and_then(|x| x.strip_suffix(')')).unwrap_or(t)))
    }
}

/// `verif started "<id>" <sid>` lines so far
fn started_children(log: &crate::obs::Log) -> Vec<(String, u32)> {
    log.lock()
        .unwrap_or_else(|e| e.into_inner())
        .iter()
        .filter_map(|l| {
            let r = l.strip_prefix("msg verif started ")?;
            let (id, sid) = r.rsplit_once(' ')?;
            Some((unquote(id), sid.parse().ok()?))
        })
        .collect()
}

/// logs of the tracers the factory handed out (one per parsed document: parents and children)
static CHILD_LOGS: Mutex<Option<Arc<Mutex<Vec<crate::obs::Log>>>>> = Mutex::new(None);

fn factory_logs() -> Arc<Mutex<Vec<crate::obs::Log>>> {
    let mut g = CHILD_LOGS.lock().unwrap();
    if g.is_none() {
        let logs = Arc::new(Mutex::new(Vec::new()));
        rufsm::tracer::set_tracer_factory(Box::new(RecTracerFactory { logs: logs.clone(), verbose: true }));
        *g = Some(logs);
    }
    g.as_ref().unwrap().clone()
}

pub fn run_impl(c: &Case14) -> Result<Run14, String> {
    crate::vdm::install();
    let flogs = factory_logs();
    let mut fsm = parse(&c.xml)?;
    // every document parsed from here on is a child of this parent, in the order of the `started` lines
    let base = flogs.lock().unwrap().len();
    let doc = dump(&fsm);
    let (tracer, log) = RecTracer::new(true);
    fsm.tracer = Box::new(tracer);
    let executor = FsmExecutor::new_without_io_processor();
    let vid = crate::vdm::register_log(&log);
    executor.state.lock().unwrap().datamodel_options.insert(crate::vdm::OPT_LOG.to_string(), vid.clone());
    let mut session = fsm::start_fsm_with_data_and_finish_mode(fsm, ActionWrapper::new(), Box::new(executor.clone()), &[], FinishMode::KEEP_CONFIGURATION);
    let parent_sid = session.session_id;
    let handle = session.thread.take().unwrap();
    let start = Instant::now();
    let len = |log: &crate::obs::Log| log.lock().unwrap_or_else(|e| e.into_inner()).len();
    // blocked on the external queue: the last dequeue that was entered has not returned
    let last_is_idle = |log: &crate::obs::Log| {
        let g = log.lock().unwrap_or_else(|e| e.into_inner());
        for l in g.iter().rev() {
            if l == "m< externalQueue.dequeue" {
                return false;
            }
            if l == "m> externalQueue.dequeue" {
                return true;
            }
        }
        false
    };
    // quiescent = blocked on the queue and nothing new for `q`
    let wait_quiet = |q: Duration, max: Duration| {
        let s = Instant::now();
        let mut n = len(&log);
        let mut since = Instant::now();
        while s.elapsed() < max && !handle.is_finished() {
            std::thread::sleep(Duration::from_micros(150));
            let m = len(&log);
            if m > 60_000 {
                // runaway macrostep: no point in waiting for quiescence
                return false;
            }
            if m != n {
                n = m;
                since = Instant::now();
            } else if last_is_idle(&log) && since.elapsed() >= q {
                return true;
            }
        }
        false
    };
    wait_quiet(Duration::from_micros(600), Duration::from_secs(5));
    let mut executor_stuck = false;
    for a in &c.acts {
        if handle.is_finished() {
            break;
        }
        match a {
            Act::ToParent(n) => {
                let _ = session.sender.send(Box::new(Event::new_simple(n)));
            }
            Act::ToChild(k, n) => {
                let kids = started_children(&log);
                if !kids.is_empty() {
                    // the most recently started ones are the likeliest to be alive
                    let (_, sid) = kids[kids.len() - 1 - (k % kids.len().min(4))].clone();
                    // from a helper thread: if the executor is deadlocked (finding C17-E-P: a session
                    // start holds the executor state and waits for the processor, a sending session
                    // holds the processor and waits for the executor state) the harness must not block
                    let ex = executor.clone();
                    let ev = Event::new_simple(n);
                    let h = std::thread::spawn(move || {
                        let _ = ex.send_to_session(sid, ev);
                    });
                    let w = Instant::now();
                    while !h.is_finished() && w.elapsed() < Duration::from_millis(1500) {
                        std::thread::sleep(Duration::from_micros(100));
                    }
                    if !h.is_finished() {
                        executor_stuck = true;
                        break;
                    }
                }
            }
            Act::Sleep(us) => std::thread::sleep(Duration::from_micros(*us)),
            Act::WaitIdle => {
                wait_quiet(Duration::from_micros(400), Duration::from_secs(5));
            }
        }
    }
    // let everything in flight arrive, then cancel the parent
    let quiet = if executor_stuck { false } else { wait_quiet(Duration::from_millis(25), Duration::from_secs(8)) };
    if !quiet && !handle.is_finished() {
        // is the executor's state mutex held for good?
        let w = Instant::now();
        let mut free = false;
        while w.elapsed() < Duration::from_millis(1500) {
            if executor.state.arc.try_lock().is_ok() {
                free = true;
                break;
            }
            std::thread::sleep(Duration::from_millis(1));
        }
        if !free {
            executor_stuck = true;
        }
    }
    // children that announced their last message are given time to finish (their done.invoke is then
    // in the parent's queue before the cancel event): makes oracle O6b exact on a loaded machine
    let mut last_senders_finished = true;
    if !executor_stuck {
        let w = Instant::now();
        loop {
            let lasts: Vec<u32> = {
                let g = log.lock().unwrap_or_else(|e| e.into_inner());
                g.iter()
                    .filter_map(|l| l.strip_prefix("msg verif raw \"k.last\" "))
                    .filter_map(|r| r.rsplit_once("#_scxml_").and_then(|x| x.1.trim_end_matches(|c| c == ')' || c == '"').parse::<u32>().ok()))
                    .collect()
            };
            let kids = started_children(&log);
            let child_logs: Vec<crate::obs::Log> = flogs.lock().unwrap().iter().skip(base).cloned().collect();
            let pending = lasts.iter().any(|sid| {
                kids.iter().position(|k| k.1 == *sid).map(|k| !child_logs.get(k).map(|l| l.lock().unwrap_or_else(|e| e.into_inner()).iter().any(|x| x == "m< interpret")).unwrap_or(true)).unwrap_or(false)
            });
            if !pending || handle.is_finished() {
                break;
            }
            if w.elapsed() > Duration::from_secs(10) {
                // an overloaded machine: the clause "done.invoke follows the last message" is not judged
                last_senders_finished = false;
                break;
            }
            std::thread::sleep(Duration::from_millis(1));
        }
        wait_quiet(Duration::from_millis(15), Duration::from_secs(3));
    }
    if executor_stuck {
        crate::vdm::unregister_log(&vid);
        flogs.lock().unwrap().truncate(base);
        let trace = log.lock().unwrap_or_else(|e| e.into_inner()).clone();
        return Ok(Run14 { doc, trace, panicked: false, timed_out: true, children_alive: vec![], child_logs: vec![], executor_stuck: true, last_senders_finished: false });
    }
    let _ = session.sender.send(Box::new(Event::new_simple(EVENT_CANCEL_SESSION)));
    let mut timed_out = !quiet && !handle.is_finished();
    let s2 = Instant::now();
    while !handle.is_finished() {
        if s2.elapsed() > Duration::from_secs(8) {
            timed_out = true;
            break;
        }
        std::thread::sleep(Duration::from_micros(200));
    }
    let mut panicked = false;
    if handle.is_finished() {
        panicked = handle.join().is_err();
    }
    // every child must end: its own trace shows the return from `interpret`
    let kids: Vec<u32> = started_children(&log).iter().map(|x| x.1).collect();
    let s3 = Instant::now();
    let mut alive: Vec<u32>;
    loop {
        let child_logs: Vec<crate::obs::Log> = flogs.lock().unwrap().iter().skip(base).cloned().collect();
        alive = vec![];
        for (k, sid) in kids.iter().enumerate() {
            let ended = child_logs.get(k).map(|l| l.lock().unwrap_or_else(|e| e.into_inner()).iter().any(|x| x == "m< interpret")).unwrap_or(false);
            if !ended {
                alive.push(*sid);
            }
        }
        if alive.is_empty() || s3.elapsed() > Duration::from_millis(1500) {
            break;
        }
        std::thread::sleep(Duration::from_millis(1));
    }
    let child_logs: Vec<Vec<String>> = flogs.lock().unwrap().iter().skip(base).map(|l| l.lock().unwrap_or_else(|e| e.into_inner()).clone()).collect();
    // forget the logs of this case
    flogs.lock().unwrap().truncate(base);
    let _ = (parent_sid, start);
    crate::vdm::unregister_log(&vid);
    let trace = log.lock().unwrap_or_else(|e| e.into_inner()).clone();
    Ok(Run14 { doc, trace, panicked, timed_out, children_alive: alive, child_logs, executor_stuck: false, last_senders_finished })
}

// ------------------------------------------------------------------ trace → events

#[derive(Clone, Debug, PartialEq)]
pub enum Ev {
    Enter(u32),
    Exit(u32),
    Idle,
    Ext(String),
    Int(String),
    Raw { name: String, inv: Option<String>, origin: Option<String> },
    Dropped(String),
    Forward(String, String),
    Invoke(u32, u32),
    Started(String, u32),
    CancelInv(String),
    Content(u32),
    Sel(Vec<u32>),
    Dm(String),
    ISend(String),
}

pub fn events_of(trace: &[String]) -> Vec<Ev> {
    let mut v = vec![];
    for l in trace {
        if let Some(n) = l.strip_prefix("enter ") {
            v.push(Ev::Enter(n.parse().unwrap_or(0)));
        } else if let Some(n) = l.strip_prefix("exit ") {
            v.push(Ev::Exit(n.parse().unwrap_or(0)));
        } else if l == "m> externalQueue.dequeue" {
            v.push(Ev::Idle);
        } else if let Some(n) = l.strip_prefix("ext ") {
            v.push(Ev::Ext(n.to_string()));
        } else if l == "ext" || l == "ext " {
            v.push(Ev::Ext(String::new()));
        } else if let Some(n) = l.strip_prefix("int ") {
            v.push(Ev::Int(n.to_string()));
        } else if let Some(r) = l.strip_prefix("msg verif raw ") {
            // "name" Some("inv")|None Some("origin")|None
            let mut parts: Vec<String> = vec![];
            let mut cur = String::new();
            let mut inq = false;
            let mut prev = ' ';
            for ch in r.chars() {
                if ch == '"' && prev != '\\' {
                    inq = !inq;
                }
                if ch == ' ' && !inq {
                    parts.push(cur.clone());
                    cur.clear();
                } else {
                    cur.push(ch);
                }
                prev = ch;
            }
            parts.push(cur);
            if parts.len() == 3 {
                v.push(Ev::Raw { name: unquote(&parts[0]), inv: opt_unquote(&parts[1]), origin: opt_unquote(&parts[2]) });
            }
        } else if let Some(r) = l.strip_prefix("msg verif dropped ") {
            v.push(Ev::Dropped(unquote(r)));
        } else if let Some(r) = l.strip_prefix("msg verif forward ") {
            if let Some((a, b)) = r.split_once("\" \"") {
                v.push(Ev::Forward(unquote(&format!("{}\"", a)), unquote(&format!("\"{}", b))));
            }
        } else if let Some(r) = l.strip_prefix("msg verif invoke ") {
            let f: Vec<&str> = r.split(' ').collect();
            if f.len() == 2 {
                v.push(Ev::Invoke(f[0].parse().unwrap_or(0), f[1].parse().unwrap_or(0)));
            }
        } else if let Some(r) = l.strip_prefix("msg verif started ") {
            if let Some((id, sid)) = r.rsplit_once(' ') {
                v.push(Ev::Started(unquote(id), sid.parse().unwrap_or(0)));
            }
        } else if let Some(r) = l.strip_prefix("msg verif cancelinv ") {
            v.push(Ev::CancelInv(unquote(r)));
        } else if let Some(n) = l.strip_prefix("arg contentId=") {
            v.push(Ev::Content(n.parse().unwrap_or(0)));
        } else if let Some(x) = l.strip_prefix("res enabledTransitions=") {
            let inner = x.trim().trim_start_matches('[').trim_end_matches(']');
            v.push(Ev::Sel(inner.split(',').filter_map(|y| y.trim().parse().ok()).collect()));
        } else if let Some(t) = l.strip_prefix("dm ") {
            v.push(Ev::Dm(t.to_string()));
        } else if let Some(n) = l.strip_prefix("isend ") {
            v.push(Ev::ISend(n.to_string()));
        }
    }
    v
}

/// observation stream in the driver's notation (idle / feed markers left out: the batching of
/// the replayed feed is not the real arrival pattern)
pub fn impl_obs(evs: &[Ev]) -> Vec<String> {
    let mut o = vec![];
    // the reads of an invoke's namelist (`dm loc …` right after the invoke line) are not part of
    // the model's invoke outcome
    let mut after_invoke = false;
    for e in evs {
        match e {
            Ev::Dm(t) if after_invoke && t.starts_with("loc ") => continue,
            Ev::Invoke(..) => after_invoke = true,
            Ev::Started(..) => {}
            _ => after_invoke = false,
        }
        match e {
            Ev::Enter(n) => o.push(format!("enter:{}", n)),
            Ev::Exit(n) => o.push(format!("exit:{}", n)),
            Ev::Ext(n) => o.push(format!("ext:{}", hexs(n))),
            Ev::Int(n) => o.push(format!("int:{}", hexs(n))),
            Ev::Dropped(n) => o.push(format!("dropped:{}", hexs(n))),
            Ev::Forward(i, n) => o.push(format!("forward:{}:{}", hexs(i), hexs(n))),
            Ev::Invoke(s, d) => o.push(format!("invoke:{}:{}", s, d)),
            Ev::CancelInv(i) => o.push(format!("cancelinv:{}", hexs(i))),
            Ev::Content(n) => o.push(format!("content:{}", n)),
            Ev::Sel(v) => o.push(format!("sel:{}", if v.is_empty() { ".".to_string() } else { v.iter().map(|x| x.to_string()).collect::<Vec<_>>().join(",") })),
            Ev::Dm(t) => o.push(format!("dm:{}", hexs(t))),
            Ev::ISend(n) => o.push(format!("isend:{}", hexs(n))),
            Ev::Idle | Ev::Raw { .. } | Ev::Started(..) => {}
        }
    }
    canon_cancel_runs(o)
}

/// the order in which `exitInterpreter` cancels the remaining children is a HashMap order
fn canon_cancel_runs(o: Vec<String>) -> Vec<String> {
    let mut out: Vec<String> = vec![];
    let mut run: Vec<String> = vec![];
    for x in o {
        if x.starts_with("cancelinv:") || x.starts_with("forward:") {
            // HashMap orders (cancel at exit) / sorted ids vs registration order (forward)
            if let Some(l) = run.last() {
                if l.split(':').next() != x.split(':').next() {
                    run.sort();
                    out.append(&mut run);
                }
            }
            run.push(x);
        } else {
            if !run.is_empty() {
                run.sort();
                out.append(&mut run);
            }
            out.push(x);
        }
    }
    run.sort();
    out.append(&mut run);
    out
}

pub fn model_obs(model: &mut Model, doc: &str, evs: &[Ev]) -> (Vec<String>, String) {
    let raws: Vec<String> = evs
        .iter()
        .filter_map(|e| match e {
            Ev::Raw { name, inv, .. } => Some(format!("{}:{}", hexs(name), inv.as_ref().map(|i| hexs(i)).unwrap_or("!".to_string()))),
            _ => None,
        })
        .collect();
    let feed = if raws.is_empty() { "!".to_string() } else { raws.join("^") };
    let reply = model.ask(&format!("int run {} {} ! 0", doc, feed));
    let mut parts = reply.rsplitn(2, ' ');
    let status = parts.next().unwrap_or("").to_string();
    let tr = parts.next().unwrap_or("");
    let mut o = vec![];
    if tr != "." {
        for x in tr.split(';') {
            if x == "idle" || x == "feed" || x.starts_with("final:") || x == "doneinvoke" {
                continue;
            }
            o.push(x.to_string());
        }
    }
    (canon_cancel_runs(o), status)
}

// ------------------------------------------------------------------ statement oracles

#[derive(Clone, Debug)]
pub struct TInvoke {
    pub doc_id: u32,
    pub autoforward: bool,
    pub finalize: u32,
    pub id: String,
}

pub fn invokes_of(doc: &str) -> HashMap<u32, Vec<TInvoke>> {
    let mut m = HashMap::new();
    for rec in doc.split('|') {
        let f: Vec<&str> = rec.split(',').collect();
        if f[0] == "S" && f.len() > 14 && f[14] != "." {
            let sid: u32 = f[1].parse().unwrap_or(0);
            let v: Vec<TInvoke> = f[14]
                .split('/')
                .filter_map(|x| {
                    let g: Vec<&str> = x.split(':').collect();
                    if g.len() < 4 {
                        return None;
                    }
                    Some(TInvoke {
                        doc_id: g[0].parse().ok()?,
                        autoforward: g[1] == "1",
                        finalize: g[2].parse().ok()?,
                        id: crate::proto::unhex(g[3]).map(|b| String::from_utf8_lossy(&b).to_string()).unwrap_or_default(),
                    })
                })
                .collect();
            m.insert(sid, v);
        }
    }
    m
}

#[derive(Clone, Debug)]
struct Inst {
    id: String,
    sid: u32,
    state: u32,
    doc_id: u32,
    cancelled: bool,
    done: bool,
    /// its registration was removed by the done.invoke of an OLDER invocation with the same id
    orphaned: bool,
}

pub struct Judged {
    pub failures: Vec<(String, String)>,
    pub stats: BTreeMap<String, u64>,
}

pub fn judge(doc: &str, evs: &[Ev], children_alive: &[u32], judge_done_after_last: bool) -> Judged {
    let inv = invokes_of(doc);
    let mut fails: Vec<(String, String)> = vec![];
    let mut stats: BTreeMap<String, u64> = BTreeMap::new();
    let mut bump = |k: &str| *stats.entry(k.to_string()).or_insert(0) += 1;
    let mut cfg: Vec<u32> = vec![];
    let mut entered_since: Vec<u32> = vec![];
    let mut invoked_since: Vec<(u32, u32)> = vec![];
    let mut insts: Vec<Inst> = vec![];
    let mut last_invoke: Option<(u32, u32)> = None;
    let origin_sid = |o: &Option<String>| -> Option<u32> { o.as_ref().and_then(|s| s.strip_prefix("#_scxml_")).and_then(|x| x.parse().ok()) };
    let mut i = 0usize;
    let mut exited_in_macro: Vec<u32> = vec![];
    let mut ended = false;
    while i < evs.len() {
        match &evs[i] {
            Ev::Enter(s) => {
                if !cfg.contains(s) {
                    cfg.push(*s);
                }
                entered_since.push(*s);
            }
            Ev::Exit(s) => {
                cfg.retain(|x| x != s);
                exited_in_macro.push(*s);
                // O2: the running invocations of the exited state are cancelled right here
                let mine: Vec<usize> = (0..insts.len()).filter(|k| insts[*k].state == *s && !insts[*k].cancelled && !insts[*k].done).collect();
                if !mine.is_empty() {
                    let mut j = i + 1;
                    let mut seen: Vec<String> = vec![];
                    while j < evs.len() {
                        match &evs[j] {
                            Ev::CancelInv(id) => seen.push(id.clone()),
                            Ev::Exit(_) | Ev::Enter(_) | Ev::Idle | Ev::Content(_) | Ev::Sel(_) => break,
                            _ => {}
                        }
                        j += 1;
                    }
                    for k in mine {
                        if !seen.contains(&insts[k].id) {
                            fails.push((format!("C14:not-cancelled-on-exit{}", if insts[k].orphaned { ":orphaned-by-late-done.invoke-of-same-id" } else { "" }), format!("state {} exited, invocation {} (session {}) not cancelled", s, insts[k].id, insts[k].sid)));
                        } else {
                            bump("cancelled_on_exit");
                        }
                    }
                }
            }
            Ev::Invoke(s, d) => {
                invoked_since.push((*s, *d));
                last_invoke = Some((*s, *d));
            }
            Ev::Started(id, sid) => {
                let (st, d) = last_invoke.unwrap_or((0, 0));
                // a new registration under the same id replaces the old one
                insts.push(Inst { id: id.clone(), sid: *sid, state: st, doc_id: d, cancelled: false, done: false, orphaned: false });
                bump("invocations_started");
            }
            Ev::CancelInv(id) => {
                if let Some(k) = (0..insts.len()).rev().find(|k| insts[*k].id == *id && !insts[*k].cancelled && !insts[*k].done) {
                    insts[k].cancelled = true;
                }
            }
            // O1: at the end of every macrostep — the invocation phase is followed by the idle marker,
            // or, when an invoke raised an error event, directly by the next macrostep's selection —
            // exactly the invokes of the states entered in this macrostep and still active are attempted
            Ev::Idle | Ev::Sel(_) | Ev::Int(_) => {
                let at_idle = matches!(&evs[i], Ev::Idle);
                if at_idle || !invoked_since.is_empty() {
                    let mut expected: Vec<(u32, u32)> = vec![];
                    let mut seen_states: Vec<u32> = vec![];
                    for s in &entered_since {
                        if cfg.contains(s) && !seen_states.contains(s) {
                            seen_states.push(*s);
                            if let Some(v) = inv.get(s) {
                                for x in v {
                                    expected.push((*s, x.doc_id));
                                }
                            }
                        }
                    }
                    let mut a = expected.clone();
                    a.sort();
                    let mut b = invoked_since.clone();
                    b.sort();
                    if a != b {
                        let kind = if b.len() > a.len() { "extra-invoke" } else if b.len() < a.len() { "missing-invoke" } else { "wrong-invoke" };
                        fails.push((format!("C14:{}", kind), format!("end of macrostep: expected invocations {:?}, attempted {:?} (cfg {:?})", a, b, cfg)));
                    } else if !a.is_empty() {
                        bump("macrosteps_with_invokes");
                        if !at_idle {
                            bump("invocation_phase_followed_by_error_handling");
                        }
                    }
                    for s in &entered_since {
                        if !cfg.contains(s) && inv.contains_key(s) {
                            bump("invoking_state_entered_and_exited_within_macrostep");
                        }
                    }
                    entered_since.clear();
                    invoked_since.clear();
                    exited_in_macro.clear();
                }
            }
            Ev::Raw { name, inv: rinv, origin } => {
                // what happens to this raw event: dropped, or accepted (Ext follows)
                let mut accepted = false;
                let mut j = i + 1;
                while j < evs.len() {
                    match &evs[j] {
                        Ev::Dropped(_) => break,
                        Ev::Ext(_) => {
                            accepted = true;
                            break;
                        }
                        Ev::Raw { .. } => break,
                        _ => {}
                    }
                    j += 1;
                }
                let from = origin_sid(origin);
                let from_inst: Option<usize> = from.and_then(|sid| (0..insts.len()).find(|k| insts[*k].sid == sid));
                if name == EVENT_CANCEL_SESSION {
                    ended = true;
                }
                if let Some(k) = from_inst {
                    // O6: done.invoke at most once and last
                    if insts[k].done {
                        fails.push(("C14:event-after-done.invoke".to_string(), format!("event {} from session {} after its done.invoke", name, insts[k].sid)));
                    }
                    // O3: nothing from a cancelled child is processed
                    if accepted && insts[k].cancelled && !ended {
                        let why = if name.starts_with("done.invoke.") {
                            "done.invoke-bypass"
                        } else if insts.iter().any(|x| x.id == insts[k].id && x.sid != insts[k].sid && !x.cancelled && !x.done) {
                            // the known finding C14-reused-invoke-id is about AUTHOR-CHOSEN ids (<invoke id=X>
                            // re-entered while events of the old X are in flight); an id the platform generated
                            // itself must never be handed out twice, so the same symptom for an <invoke> without
                            // id attribute is a different defect and gets its own signature
                            let explicit = inv
                                .get(&insts[k].state)
                                .and_then(|v| v.iter().find(|t| t.doc_id == insts[k].doc_id))
                                .map(|t| !t.id.is_empty())
                                .unwrap_or(true);
                            if explicit {
                                "same-id-reinvoked"
                            } else {
                                "generated-id-reinvoked"
                            }
                        } else {
                            "other"
                        };
                        fails.push((format!("C14:event-after-cancel:{}", why), format!("event {} from cancelled invocation {} (session {}) was processed", name, insts[k].id, insts[k].sid)));
                    }
                    if accepted && !insts[k].cancelled {
                        bump("child_events_processed");
                        // the event carries the invoke id under which the child was started
                        if rinv.as_deref() != Some(insts[k].id.as_str()) {
                            fails.push(("C14:wrong-invokeid".to_string(), format!("event {} from invocation {} carries invokeid {:?}", name, insts[k].id, rinv)));
                        }
                        // O4: finalize of that invoke runs before the selection
                        let fin = inv.get(&insts[k].state).and_then(|v| v.iter().find(|x| x.doc_id == insts[k].doc_id)).map(|x| x.finalize).unwrap_or(0);
                        let is_done = name.starts_with("done.invoke.");
                        if fin != 0 && !is_done {
                            let mut ok = false;
                            let mut j2 = j;
                            while j2 < evs.len() {
                                match &evs[j2] {
                                    Ev::Content(cid) if *cid == fin => {
                                        ok = true;
                                        break;
                                    }
                                    Ev::Sel(_) => break,
                                    _ => {}
                                }
                                j2 += 1;
                            }
                            if ok {
                                bump("finalize_before_selection");
                            } else {
                                fails.push(("C14:finalize-not-run".to_string(), format!("event {} from invocation {}: finalize block {} did not run before the selection", name, insts[k].id, fin)));
                            }
                        }
                    }
                    if name.starts_with("done.invoke.") && accepted {
                        // the code forgets whatever is registered under the event's invoke id
                        if let Some(iid) = rinv {
                            let my_sid = insts[k].sid;
                            for x in insts.iter_mut() {
                                if x.id == *iid && x.sid != my_sid && !x.cancelled && !x.done {
                                    x.orphaned = true;
                                }
                            }
                        }
                    }
                    if name.starts_with("done.invoke.") {
                        if *name != format!("done.invoke.{}", insts[k].id) {
                            fails.push(("C14:done.invoke-name".to_string(), format!("{} from invocation {}", name, insts[k].id)));
                        }
                        insts[k].done = true;
                        bump("done_invoke_received");
                    }
                    if name == "k.last" {
                        bump("children_finishing_with_last_message");
                    }
                }
                // O5: autoforward — every accepted external event goes to every running autoforward child
                if accepted && name != EVENT_CANCEL_SESSION {
                    let mut fwd: Vec<String> = vec![];
                    let mut j2 = j;
                    while j2 < evs.len() {
                        match &evs[j2] {
                            Ev::Forward(id, n) if n == name => fwd.push(id.clone()),
                            Ev::Sel(_) => break,
                            _ => {}
                        }
                        j2 += 1;
                    }
                    for x in insts.iter().filter(|x| !x.cancelled && !x.done) {
                        let auto = inv.get(&x.state).and_then(|v| v.iter().find(|y| y.doc_id == x.doc_id)).map(|y| y.autoforward).unwrap_or(false);
                        let is_sender = from_inst.map(|k| insts[k].sid == x.sid).unwrap_or(false);
                        if auto && is_sender && fwd.contains(&x.id) {
                            bump("autoforward_echo_to_sender");
                        }
                        if auto && !is_sender {
                            if fwd.contains(&x.id) {
                                bump("autoforwarded");
                            } else {
                                fails.push((
                                    format!(
                                        "C14:autoforward:not-forwarded:{}{}",
                                        if from_inst.is_some() { "event-of-another-child" } else { "external-event" },
                                        if x.orphaned { ":orphaned-by-late-done.invoke-of-same-id" } else { "" }
                                    ),
                                    format!("event {} not forwarded to autoforward invocation {}", name, x.id),
                                ));
                            }
                        }
                    }
                    // (an event of an autoforward child is also forwarded back to that child: the
                    // Recommendation's own conformance test 230 expects that; not judged)
                }
            }
            _ => {}
        }
        i += 1;
    }
    // O6b: a child that sent its last message reports done.invoke (the run waited for quiescence)
    let last_from: Vec<u32> = evs
        .iter()
        .filter_map(|e| match e {
            Ev::Raw { name, origin, .. } if name == "k.last" => origin_sid(origin),
            _ => None,
        })
        .collect();
    for sid in last_from {
        if !judge_done_after_last {
            break;
        }
        if let Some(x) = insts.iter().find(|x| x.sid == sid) {
            if !x.done {
                fails.push(("C14:done.invoke-missing".to_string(), format!("invocation {} (session {}) reached its final state (k.last seen) but no done.invoke arrived", x.id, x.sid)));
            }
        }
    }
    // O2b: at the end every invocation is cancelled or done, and every child session ended
    if ended {
        for x in &insts {
            if !x.cancelled && !x.done {
                fails.push((format!("C14:not-cancelled-at-exit{}", if x.orphaned { ":orphaned-by-late-done.invoke-of-same-id" } else { "" }), format!("invocation {} (session {}) neither done nor cancelled when the parent ended", x.id, x.sid)));
            }
        }
        for sid in children_alive {
            let orphan = insts.iter().any(|x| x.sid == *sid && x.orphaned);
            fails.push((format!("C14:child-still-running{}", if orphan { ":orphaned-by-late-done.invoke-of-same-id" } else { "" }), format!("child session {} has not returned from interpret() 1.5 s after the parent ended", sid)));
        }
    }
    Judged { failures: fails, stats }
}

// ------------------------------------------------------------------ family

fn first_diff(a: &[String], b: &[String]) -> usize {
    let n = a.len().min(b.len());
    for i in 0..n {
        if a[i] != b[i] {
            return i;
        }
    }
    n
}

fn window(v: &[String], at: usize) -> Vec<String> {
    let lo = at.saturating_sub(8);
    let hi = (at + 5).min(v.len());
    v[lo..hi].to_vec()
}

/// `--few`: the family runs as a supporting correspondence of another property's check (C03, C13):
/// only the model/implementation comparison counts there, C14's own statement oracles are not reported
static SUPPORT_MODE: std::sync::atomic::AtomicBool = std::sync::atomic::AtomicBool::new(false);
/// `--for Cxx`: the property whose check the family supports
static SUPPORT_FOR: Mutex<String> = Mutex::new(String::new());

pub fn check_case(c: &Case14, model: &mut Model, rep: &mut Report) {
    rep.evaluations += 1;
    let t0 = Instant::now();
    // a document whose macrostep never ends would spin in the real interpreter: ask the model first
    // (parent events only; child events are replayed afterwards)
    if let Ok(f) = parse(&c.xml) {
        let d0 = dump(&f);
        let pre: Vec<Ev> = c
            .acts
            .iter()
            .filter_map(|a| match a {
                Act::ToParent(n) => Some(Ev::Raw { name: n.clone(), inv: None, origin: None }),
                _ => None,
            })
            .collect();
        let (_, st) = model_obs(model, &d0, &pre);
        if st == "diverged" {
            rep.count("skipped_model_diverges");
            return;
        }
    }
    let run = match run_impl(c) {
        Ok(r) => r,
        Err(e) => {
            rep.count("reader_rejected");
            rep.disagree(json!({"origin": c.origin, "xml": c.xml, "reader_error": e}));
            return;
        }
    };
    let evs = events_of(&run.trace);
    if std::env::var("VH_DEBUG").is_ok() && (run.panicked || run.timed_out || !run.children_alive.is_empty()) {
        eprintln!("PROBLEM panicked={} timed_out={} alive={:?} tail:", run.panicked, run.timed_out, run.children_alive);
        let raws: Vec<&String> = run.trace.iter().filter(|l| l.starts_with("msg verif") || l.starts_with("enter ") || l.starts_with("exit ") || l.starts_with("int ") || l.starts_with("ext ") || l.starts_with("res enabledTransitions") || l.starts_with("dm ") || l == &"m> externalQueue.dequeue").collect();
        eprintln!("   total lines {} ; last protocol lines:", run.trace.len());
        for l in raws.iter().rev().take(60).collect::<Vec<_>>().iter().rev() {
            eprintln!("   | {}", l);
        }
        for l in run.trace.iter().rev().take(40).collect::<Vec<_>>().iter().rev() {
            if !(l.starts_with("m> is") || l.starts_with("m< is") || l.starts_with("arg state") || l.starts_with("res result")) {
                eprintln!("   {}", l);
            }
        }
        for (k, cl) in run.child_logs.iter().enumerate() {
            eprintln!("  child log {}: {:?}", k, cl.iter().filter(|l| l.starts_with("e") || l.starts_with("msg") || l.starts_with("m< interpret")).collect::<Vec<_>>());
        }
    }
    let info = |what: &str| json!({"origin": c.origin, "xml": c.xml, "acts": acts_json(&c.acts), "what": what});
    // the harness's verification data model computes in i64: values that leave that range make its own
    // arithmetic panic (the Lean model computes in unbounded Int) — not the platform's doing
    if run.panicked && run.trace.iter().any(|l| l.starts_with("dm ") && l.split(' ').any(|w| w.trim_start_matches('-').len() >= 18 && w.trim_start_matches('-').chars().all(|c| c.is_ascii_digit()))) {
        rep.count("skipped_value_beyond_i64_range_of_the_harness_vdm");
        return;
    }
    if (run.panicked || run.timed_out) && run.trace.len() > 60_000 {
        // runaway: the document and its children feed each other for ever (a child's start-up message
        // changes data that re-enters the invoking state, which starts the next child, …) or a
        // macrostep does not end; the recording tracer ended the session at its cap.  Not a
        // platform failure: a platform hang produces no trace, a platform panic not this much.
        rep.count("skipped_runaway_feedback_loop");
        return;
    }
    if SUPPORT_MODE.load(std::sync::atomic::Ordering::Relaxed) && (run.executor_stuck || run.panicked || run.timed_out) {
        if run.executor_stuck {
            // the known lock-order deadlock (C17-E-P): not this property's business
            rep.count("support_mode_executor_deadlock_skipped");
            return;
        }
        let (_, status) = model_obs(model, &run.doc, &evs);
        if status == "diverged" {
            rep.count("skipped_document_diverges");
        } else {
            rep.disagree(json!({"origin": c.origin, "xml": c.xml, "acts": acts_json(&c.acts), "impl": if run.panicked { "session panicked" } else { "session hung" }, "model": status}));
        }
        return;
    }
    if run.executor_stuck {
        rep.oracle_fail("C14:deadlock:executor-state-held", info("the executor's state mutex is held for good: session start (executor state → processor) against a cross-session send (processor → executor state); the parent takes no further step"));
        return;
    }
    if run.panicked || run.timed_out {
        // an endless macrostep is the document's doing, not the platform's: ask the model
        let (_, status) = model_obs(model, &run.doc, &evs);
        // (the verification data model's i64 arithmetic overflows in documents that double a
        // counter for ever: that panic is the harness's own and ends the spinning thread)
        if std::env::var("VH_DEBUG").is_ok() {
            eprintln!("   model status for the died/hung run: {:?}", status);
        }
        if status == "diverged" {
            rep.count("skipped_document_diverges");
            return;
        }
        rep.oracle_fail(&format!("C14:session-{}", if run.panicked { "panicked" } else { "hung" }), info("parent session died / hung"));
        return;
    }
    let io = impl_obs(&evs);
    let (mo, status) = model_obs(model, &run.doc, &evs);
    if status == "diverged" {
        rep.count("skipped_model_diverges");
        return;
    }
    if status == "bad-op" || status.is_empty() {
        rep.disagree(json!({"origin": c.origin, "xml": c.xml, "acts": acts_json(&c.acts), "model": "bad-op"}));
        return;
    }
    if io != mo {
        let at = first_diff(&mo, &io);
        rep.disagree(json!({"origin": c.origin, "xml": c.xml, "acts": acts_json(&c.acts), "first_difference_at": at,
            "impl": window(&io, at), "model": window(&mo, at), "impl_len": io.len(), "model_len": mo.len()}));
    }
    rep.add("obs_compared", io.len() as u64);
    let n_raw = evs.iter().filter(|e| matches!(e, Ev::Raw { .. })).count();
    let n_child_raw = evs.iter().filter(|e| matches!(e, Ev::Raw { inv: Some(_), .. })).count();
    rep.add("raw_events_dequeued", n_raw as u64);
    rep.add("raw_events_from_children", n_child_raw as u64);
    rep.add("events_dropped_by_filter", evs.iter().filter(|e| matches!(e, Ev::Dropped(_))).count() as u64);
    rep.add("forwards", evs.iter().filter(|e| matches!(e, Ev::Forward(..))).count() as u64);
    if evs.iter().any(|e| matches!(e, Ev::Started(..))) {
        rep.nontrivial.insert(format!("{}|{:?}", c.xml, c.acts));
    }
    let j = judge(&run.doc, &evs, &run.children_alive, run.last_senders_finished);
    for (k, v) in &j.stats {
        rep.add(k, *v);
    }
    let mut seen_sig: Vec<String> = vec![];
    let support = SUPPORT_MODE.load(std::sync::atomic::Ordering::Relaxed);
    for (sig, what) in &j.failures {
        if support {
            // the one clause that is also the host property's: an event a sender sent BEFORE its last
            // one (done.invoke) is dequeued after it — processed zero times / out of sender order (C13)
            let host = SUPPORT_FOR.lock().unwrap().clone();
            if host == "C13" && sig == "C14:event-after-done.invoke" {
                rep.oracle_fail("C13:sender-order:event-after-done.invoke", info(what));
            } else {
                rep.count("c14_statement_oracle_failures_not_reported_in_support_mode");
            }
            continue;
        }
        if seen_sig.contains(sig) {
            continue;
        }
        seen_sig.push(sig.clone());
        rep.oracle_fail(sig, info(what));
    }
    if std::env::var("VH_DEBUG").is_ok() {
        eprintln!("case {} {:?} trace_lines={} raws={}", c.origin, t0.elapsed(), run.trace.len(), n_raw);
    }
    if rep.samples.len() < 3 && n_child_raw > 0 {
        rep.sample(json!({"xml": c.xml, "acts": acts_json(&c.acts), "observations": io.len(), "first_observations": io.iter().take(16).collect::<Vec<_>>()}));
    }
}

pub fn corpus() -> Vec<Case14> {
    let inv = |id: &str, auto: bool, fin: bool| {
        format!(
            "<invoke type=\"scxml\" id=\"{}\"{}><content>{}</content>{}</invoke>",
            id,
            if auto { " autoforward=\"true\"" } else { "" },
            child_xml(),
            if fin { "<finalize><assign location=\"v0\" expr=\"v0 + 1\"/></finalize>" } else { "" }
        )
    };
    let base = |body: &str| {
        format!("<scxml xmlns=\"http://www.w3.org/2005/07/scxml\" version=\"1.0\" datamodel=\"vdm\" name=\"m\"><datamodel><data id=\"v0\" expr=\"0\"/><data id=\"v1\" expr=\"0\"/><data id=\"v2\" expr=\"0\"/></datamodel>{}</scxml>", body)
    };
    let p = |n: &str| Act::ToParent(n.to_string());
    let ch = |k: usize, n: &str| Act::ToChild(k, n.to_string());
    vec![
        // one invoking state, left and re-entered; a transit state entered and exited in one macrostep
        Case14 {
            xml: base(&format!(
                "<state id=\"idle\"><transition event=\"a\" target=\"A\"/><transition event=\"b\" target=\"T\"/></state>\
                 <state id=\"A\">{}<transition event=\"x\" target=\"idle\"/><transition event=\"a\" target=\"A\"/>\
                   <transition event=\"k.pong\"><assign location=\"v1\" expr=\"v1 + 1\"/></transition>\
                   <transition event=\"done.invoke.c1\" target=\"idle\"/></state>\
                 <state id=\"T\">{}<transition target=\"idle\"/></state>",
                inv("c1", false, true),
                inv("c2", false, false)
            )),
            acts: vec![p("a"), Act::WaitIdle, ch(0, "poke"), Act::WaitIdle, p("x"), p("b"), Act::WaitIdle, p("a"), Act::WaitIdle, ch(0, "finmsg"), Act::WaitIdle, p("a"), p("a"), Act::WaitIdle],
            origin: "corpus lifecycle".to_string(),
            invokes: 2,
        },
        // autoforward + two simultaneous invokes in a parallel state + nested
        Case14 {
            xml: base(&format!(
                "<state id=\"idle\"><transition event=\"a\" target=\"P\"/></state>\
                 <parallel id=\"P\">{}<state id=\"R1\">{}</state><state id=\"R2\"><state id=\"R2a\">{}<transition event=\"b\" target=\"R2b\"/></state><state id=\"R2b\"/></state>\
                   <transition event=\"x\" target=\"idle\"/><transition event=\"k.fwd\"><assign location=\"v2\" expr=\"v2 + 1\"/></transition></parallel>",
                inv("c1", true, false),
                inv("c2", false, true),
                inv("c3", true, true)
            )),
            acts: vec![p("a"), Act::WaitIdle, p("c"), Act::WaitIdle, ch(1, "poke"), p("d.e"), Act::WaitIdle, p("b"), Act::WaitIdle, ch(0, "fin"), ch(2, "poke"), Act::Sleep(200), p("x"), Act::WaitIdle],
            origin: "corpus parallel autoforward".to_string(),
            invokes: 3,
        },
        // an invoke whose namelist cannot be evaluated, in a state that stays active: error.execution is
        // handled before the next external event; neither invoke of the state is attempted again
        Case14 {
            xml: base(&format!(
                "<state id=\"idle\"><transition event=\"a\" target=\"A\"/></state>\
                 <state id=\"A\"><invoke type=\"scxml\" id=\"c1\" namelist=\"v0 nosuchvar\"><content>{}</content></invoke>{}\
                   <transition event=\"error.execution\"><assign location=\"v1\" expr=\"v1 + 1\"/></transition>\
                   <transition event=\"b c\"><assign location=\"v2\" expr=\"v2 + 1\"/></transition>\
                   <transition event=\"x\" target=\"idle\"/></state>",
                child_xml(),
                inv("c2", false, false)
            )),
            acts: vec![p("a"), p("b"), Act::WaitIdle, p("c"), Act::WaitIdle, ch(0, "poke"), Act::WaitIdle, p("x"), Act::WaitIdle, p("a"), p("c"), Act::WaitIdle],
            origin: "corpus invoke argument error".to_string(),
            invokes: 2,
        },
        // child finishes at the moment its invoking state is left (done.invoke races with cancel)
        Case14 {
            xml: base(&format!(
                "<state id=\"idle\"><transition event=\"a\" target=\"A\"/></state>\
                 <state id=\"A\">{}<transition event=\"x\" target=\"idle\"/><transition event=\"done.invoke\" target=\"idle\"><assign location=\"v0\" expr=\"v0 + 10\"/></transition></state>",
                inv("c1", false, false)
            )),
            acts: vec![p("a"), Act::WaitIdle, ch(0, "fin"), p("x"), Act::WaitIdle, p("a"), Act::WaitIdle, ch(0, "poke"), ch(0, "finmsg"), p("x"), p("a"), Act::WaitIdle],
            origin: "corpus done-vs-cancel race".to_string(),
            invokes: 1,
        },
    ]
}

pub fn run(args: &Args, model: &mut Model) -> Report {
    let mut rep = Report::new(
        "c14",
        "case = (generated parent document over datamodel vdm with <invoke> elements (inline rfsm-expression children) and \
         transitions on child events, random schedule of parent events / direct child pokes / sleeps / waits); one PRNG \
         state per (seed,index); non-trivial = at least one invocation was started",
    );
    SUPPORT_MODE.store(args.extra.iter().any(|a| a == "--few"), std::sync::atomic::Ordering::Relaxed);
    if let Some(i) = args.extra.iter().position(|a| a == "--for") {
        *SUPPORT_FOR.lock().unwrap() = args.extra.get(i + 1).cloned().unwrap_or_default();
    }
    // children get quiet recording tracers
    let _ = factory_logs();
    if let Some(path) = &args.replay {
        let v: Value = serde_json::from_str(&std::fs::read_to_string(path).unwrap_or_default()).unwrap_or(json!({}));
        if v.get("scenario").is_some() {
            run_real(args, &mut rep, Some(&v));
            return rep;
        }
        let c = Case14 { xml: v["xml"].as_str().unwrap_or("").to_string(), acts: acts_from_json(&v["acts"]), origin: "replay".to_string(), invokes: 0 };
        // timing-dependent: try the schedule several times
        for _ in 0..20 {
            check_case(&c, model, &mut rep);
        }
        return rep;
    }
    for c in corpus() {
        for _ in 0..(if args.thorough { 20 } else if args.extra.iter().any(|a| a == "--few") { 1 } else { 4 }) {
            check_case(&c, model, &mut rep);
        }
    }
    // `--few`: the family as a supporting run of another property's check (C03, C13)
    let few = args.extra.iter().any(|a| a == "--few");
    let n = if args.thorough { 4000 } else if std::env::var("VH_FEW").is_ok() { 20 } else if few { 70 } else { 200 };
    for i in 0..n {
        let c = gen_case(args.seed, i);
        rep.count(&format!("doc_invokes_{}", c.invokes.min(4)));
        check_case(&c, model, &mut rep);
    }
    if !few {
        run_real(args, &mut rep, None);
    }
    rep
}

// ------------------------------------------------------------------ part 2: real data models

/// fixed scenarios on rfsm-expression and ECMAScript parents
pub fn run_real(_args: &Args, rep: &mut Report, only: Option<&Value>) {
    for dm in ["rfsm-expression", "ecmascript"] {
        for sc in ["params-only-declared", "event-invokeid-and-finalize", "invoke-argument-error", "reply-by-origin", "cancelled-child-generated-id"] {
            if let Some(v) = only {
                if v["scenario"].as_str() != Some(sc) || v["datamodel"].as_str() != Some(dm) {
                    continue;
                }
            }
            rep.evaluations += 1;
            rep.count(&format!("real_{}_{}", sc, dm));
            let (xml, expect): (String, Vec<(&str, String)>) = real_scenario(sc, dm);
            let wait_for: Vec<String> = expect.iter().filter(|(_, w)| !w.starts_with('!') && !w.starts_with('#')).map(|(_, w)| w.clone()).collect();
            let marks = match run_marks(&xml, &wait_for) {
                Ok(m) => m,
                Err(e) => {
                    rep.oracle_fail(&format!("C14:{}:{}:run-failed", sc, dm), json!({"scenario": sc, "datamodel": dm, "xml": xml, "error": e}));
                    continue;
                }
            };
            rep.nontrivial.insert(format!("real|{}|{}", sc, dm));
            for (what, want) in expect {
                // "!x": no mark may start with x
                let bad = if let Some(f) = want.strip_prefix('!') { marks.iter().any(|m| m.starts_with(f)) } else { !marks.iter().any(|m| *m == want) };
                if bad {
                    rep.oracle_fail(&format!("C14:{}:{}:{}", sc, dm, what), json!({"scenario": sc, "datamodel": dm, "xml": xml, "expected_mark": want, "marks": marks}));
                }
            }
        }
    }
}

fn real_scenario(sc: &str, dm: &str) -> (String, Vec<(&'static str, String)>) {
    let head = |dm: &str| format!("<scxml xmlns=\"http://www.w3.org/2005/07/scxml\" version=\"1.0\" datamodel=\"{}\" name=\"m\" initial=\"s0\">", dm);
    match sc {
        // the child declares `a` and `b` only; the parent passes a (namelist), b (param), z (param), y (namelist)
        "params-only-declared" => {
            let child = format!(
                "<scxml xmlns=\"http://www.w3.org/2005/07/scxml\" version=\"1.0\" datamodel=\"{dm}\" name=\"child\" initial=\"r\">\
                 <datamodel><data id=\"a\" expr=\"1\"/><data id=\"b\" expr=\"2\"/><data id=\"c\" expr=\"3\"/></datamodel>\
                 <state id=\"r\"><onentry>\
                   <send event=\"k.vals\" target=\"#_parent\"><param name=\"a\" expr=\"a\"/><param name=\"b\" expr=\"b\"/><param name=\"c\" expr=\"c\"/></send>\
                   <if cond=\"z == 30\"><send event=\"k.zleak\" target=\"#_parent\"/></if>\
                   <if cond=\"y == 40\"><send event=\"k.yleak\" target=\"#_parent\"/></if>\
                 </onentry></state></scxml>",
                dm = dm
            );
            let xml = format!(
                "{head}<datamodel><data id=\"a\" expr=\"10\"/><data id=\"y\" expr=\"40\"/></datamodel>\
                 <state id=\"s0\"><invoke type=\"scxml\" id=\"c1\" namelist=\"a y\"><param name=\"b\" expr=\"20\"/><param name=\"z\" expr=\"30\"/><content>{child}</content></invoke>\
                   <transition event=\"k.vals\"><script>mark('vals', _event.data.a, _event.data.b, _event.data.c)</script></transition>\
                   <transition event=\"k.zleak k.yleak\"><script>mark('undeclared-created', _event.name)</script></transition>\
                 </state></scxml>",
                head = head(dm),
                child = child
            );
            (xml, vec![("declared-values-not-passed", "vals|10|20|3".to_string()), ("undeclared-data-created", "!undeclared-created".to_string())])
        }
        // an <invoke> whose argument evaluation fails (undeclared namelist entry) in a state that stays
        // active: error.execution is handled before the next external event, and the invoke is
        // not attempted again at the end of later macrosteps
        "invoke-argument-error" => {
            let child = format!(
                "<scxml xmlns=\"http://www.w3.org/2005/07/scxml\" version=\"1.0\" datamodel=\"{dm}\" name=\"child\" initial=\"r\"><state id=\"r\"/></scxml>",
                dm = dm
            );
            let xml = format!(
                "{head}<datamodel><data id=\"n\" expr=\"0\"/></datamodel>\
                 <state id=\"s0\"><onentry><send event=\"e1\"/><send event=\"e2\"/></onentry>\
                   <invoke type=\"scxml\" id=\"c1\" namelist=\"nosuchvar\"><content>{child}</content></invoke>\
                   <invoke type=\"scxml\" id=\"c2\"><content>{child}</content></invoke>\
                   <transition event=\"error.execution\"><assign location=\"n\" expr=\"n + 1\"/><script>mark('error-handled', n)</script></transition>\
                   <transition event=\"e1\"><script>mark('e1-after-errors', n)</script></transition>\
                   <transition event=\"e2\"><script>mark('e2-after-errors', n)</script></transition>\
                 </state></scxml>",
                head = head(dm),
                child = child
            );
            // one error event (one failing invoke, attempted once), handled before e1; nothing new later
            (xml, vec![("error-not-handled-before-next-event", "e1-after-errors|1".to_string()), ("invoke-attempted-again", "e2-after-errors|1".to_string()), ("invoke-attempts", "#invoke=2".to_string())])
        }
        // an <invoke> WITHOUT id attribute (the platform generates the invoke id) in a state that is left and
        // re-entered in one microstep: the cancelled first child says k.bye from its onexit while the second
        // invocation is already registered — the parent must not process it (each invocation needs an id of
        // its own, the dequeue filter goes by the id)
        "cancelled-child-generated-id" => {
            let child = format!(
                "<scxml xmlns=\"http://www.w3.org/2005/07/scxml\" version=\"1.0\" datamodel=\"{dm}\" name=\"child\" initial=\"r\">\
                 <state id=\"r\"><onexit><send event=\"k.bye\" target=\"#_parent\"/></onexit></state></scxml>",
                dm = dm
            );
            let xml = format!(
                "{head}<datamodel><data id=\"n\" expr=\"0\"/></datamodel>\
                 <state id=\"s0\"><onentry><send event=\"go\" delay=\"300ms\"/></onentry>\
                   <invoke type=\"scxml\"><content>{child}</content></invoke>\
                   <transition event=\"go\" cond=\"n == 0\" target=\"s0\"><assign location=\"n\" expr=\"1\"/></transition>\
                   <transition event=\"go\" cond=\"n == 1\"><script>mark('end', n)</script></transition>\
                   <transition event=\"k.bye\"><script>mark('bye-from-cancelled-child', _event.invokeid)</script></transition>\
                 </state></scxml>",
                head = head(dm),
                child = child
            );
            (xml, vec![("scenario-did-not-finish", "end|1".to_string()), ("event-of-cancelled-child-processed", "!bye-from-cancelled-child".to_string())])
        }
        // the child answers the parent's question by the session address it reads from _event.origin
        // (not by `#_parent`): the reply is still an event of that invocation — it carries the
        // invokeid and the invoke's <finalize> runs for it
        "reply-by-origin" => {
            let child = format!(
                "<scxml xmlns=\"http://www.w3.org/2005/07/scxml\" version=\"1.0\" datamodel=\"{dm}\" name=\"child\" initial=\"r\">\
                 <state id=\"r\"><onentry><send event=\"k.hello\" target=\"#_parent\"/></onentry>\
                   <transition event=\"ask\"><send event=\"k.reply\" targetexpr=\"_event.origin\"><param name=\"n\" expr=\"7\"/></send></transition></state></scxml>",
                dm = dm
            );
            let xml = format!(
                "{head}<datamodel><data id=\"v\" expr=\"0\"/></datamodel>\
                 <state id=\"s0\"><invoke type=\"scxml\" id=\"c1\"><content>{child}</content><finalize><assign location=\"v\" expr=\"v + 1\"/></finalize></invoke>\
                   <transition event=\"k.hello\"><send event=\"ask\" target=\"#_c1\"/></transition>\
                   <transition event=\"k.reply\"><script>mark('reply', _event.invokeid, v)</script></transition>\
                 </state></scxml>",
                head = head(dm),
                child = child
            );
            // finalize ran for k.hello and for k.reply: v == 2
            (xml, vec![("reply-without-invokeid-or-finalize", "reply|c1|2".to_string())])
        }
        // _event.invokeid in the parent, finalize (updates v from the event data) before the guard is evaluated
        _ => {
            let child = format!(
                "<scxml xmlns=\"http://www.w3.org/2005/07/scxml\" version=\"1.0\" datamodel=\"{dm}\" name=\"child\" initial=\"r\">\
                 <state id=\"r\"><onentry><send event=\"k.val\" target=\"#_parent\"><param name=\"n\" expr=\"7\"/></send></onentry></state></scxml>",
                dm = dm
            );
            let xml = format!(
                "{head}<datamodel><data id=\"v\" expr=\"0\"/></datamodel>\
                 <state id=\"s0\"><invoke type=\"scxml\" id=\"c1\"><content>{child}</content><finalize><assign location=\"v\" expr=\"_event.data.n\"/></finalize></invoke>\
                   <transition event=\"k.val\" cond=\"v == 7\"><script>mark('finalized-first', _event.invokeid, _event.name)</script></transition>\
                   <transition event=\"k.val\"><script>mark('guard-before-finalize', _event.invokeid, v)</script></transition>\
                 </state></scxml>",
                head = head(dm),
                child = child
            );
            (xml, vec![("finalize-or-invokeid", "finalized-first|c1|k.val".to_string())])
        }
    }
}

/// runs the document; waits (up to 6 s) until every mark of `wait_for` was seen and the session is
/// blocked and quiet, then cancels it (a loaded machine may start the children late)
fn run_marks(xml: &str, wait_for: &[String]) -> Result<Vec<String>, String> {
    let mut fsm = parse(xml)?;
    let (tracer, log) = RecTracer::new(true);
    fsm.tracer = Box::new(tracer);
    let executor = FsmExecutor::new_without_io_processor();
    let mut session = fsm::start_fsm_with_data_and_finish_mode(fsm, mark_actions(&log), Box::new(executor.clone()), &[], FinishMode::KEEP_CONFIGURATION);
    let handle = session.thread.take().unwrap();
    // quiescence, then cancel
    let s = Instant::now();
    let mut n = 0usize;
    let mut since = Instant::now();
    while s.elapsed() < Duration::from_secs(6) && !handle.is_finished() {
        std::thread::sleep(Duration::from_micros(300));
        let g = log.lock().unwrap_or_else(|e| e.into_inner());
        if g.len() != n {
            n = g.len();
            since = Instant::now();
        } else if since.elapsed() > Duration::from_millis(60) && wait_for.iter().all(|w| g.iter().any(|l| l.strip_prefix("mark ").map(|r| r.split(" cfg=").next().unwrap_or("") == w).unwrap_or(false))) && {
            let mut blocked = false;
            for l in g.iter().rev() {
                if l == "m< externalQueue.dequeue" {
                    break;
                }
                if l == "m> externalQueue.dequeue" {
                    blocked = true;
                    break;
                }
            }
            blocked
        } {
            break;
        }
    }
    let _ = session.sender.send(Box::new(Event::new_simple(EVENT_CANCEL_SESSION)));
    let s2 = Instant::now();
    while !handle.is_finished() && s2.elapsed() < Duration::from_secs(6) {
        std::thread::sleep(Duration::from_micros(300));
    }
    if !handle.is_finished() {
        return Err("parent did not end after cancel".to_string());
    }
    if handle.join().is_err() {
        return Err("parent session thread panicked".to_string());
    }
    let g = log.lock().unwrap_or_else(|e| e.into_inner());
    let mut m: Vec<String> = g.iter().filter_map(|l| l.strip_prefix("mark ").map(|r| r.split(" cfg=").next().unwrap_or("").to_string())).collect();
    // number of invocation attempts (hook line), as a pseudo mark
    m.push(format!("#invoke={}", g.iter().filter(|l| l.starts_with("msg verif invoke ")).count()));
    Ok(m)
}
