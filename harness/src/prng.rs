//! One 64-bit xorshift* state; every random choice of a check derives from it.
#[derive(Clone)]
pub struct Prng(pub u64);

impl Prng {
    pub fn new(seed: u64) -> Prng {
        let mut p = Prng(seed ^ 0x9E37_79B9_7F4A_7C15);
        if p.0 == 0 {
            p.0 = 0x1234_5678_9ABC_DEF1;
        }
        for _ in 0..4 {
            p.next();
        }
        p
    }
    /// independent stream for case `index` of run `seed`
    pub fn for_case(seed: u64, index: u64) -> Prng {
        Prng::new(seed.wrapping_mul(0x2545_F491_4F6C_DD1D) ^ index.wrapping_mul(0xD6E8_FEB8_6659_FD93) ^ 0xA5A5)
    }
    pub fn next(&mut self) -> u64 {
        let mut x = self.0;
        x ^= x >> 12;
        x ^= x << 25;
        x ^= x >> 27;
        self.0 = x;
        x.wrapping_mul(0x2545_F491_4F6C_DD1D)
    }
    pub fn below(&mut self, n: u64) -> u64 {
        if n == 0 {
            0
        } else {
            self.next() % n
        }
    }
    pub fn range(&mut self, lo: u64, hi_incl: u64) -> u64 {
        lo + self.below(hi_incl - lo + 1)
    }
    pub fn chance(&mut self, num: u64, den: u64) -> bool {
        self.below(den) < num
    }
    pub fn pick<'a, T>(&mut self, xs: &'a [T]) -> &'a T {
        &xs[self.below(xs.len() as u64) as usize]
    }
}
