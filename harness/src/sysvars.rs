//! C09 on the real data models (null, rfsm-expression, ECMAScript): In() at every evaluation point,
//! the `_event` fields, immutability of the system variables, early / late data binding — observed
//! through the `mark(...)` action (which also records the configuration the interpreter holds at
//! that moment) and the recording tracer; expectations are derived from the tracer's own
//! enter/exit stream and from the events the harness sent.
use crate::obs::{mark_actions, run_session_feed_with, RunOut};
use crate::prng::Prng;
use crate::report::Report;
use crate::Args;
use rufsm::datamodel::Data;
use rufsm::fsm::{Event, EventType, ParamPair};
use rufsm::scxml_reader;
use serde_json::json;
use std::collections::HashMap;
use std::time::Duration;

fn run(xml: &str, batches: Vec<Vec<Event>>, opts: &[(String, String)]) -> Result<(RunOut, HashMap<String, u32>), String> {
    let x = xml.to_string();
    let fsm = std::panic::catch_unwind(move || scxml_reader::parse_from_xml(x)).unwrap_or_else(|_| Err("reader panicked".into()))?;
    let names: HashMap<String, u32> = fsm.states.iter().map(|s| (s.name.clone(), s.id)).collect();
    let idle: Vec<usize> = (1..=batches.len()).collect();
    let out = run_session_feed_with(fsm, &batches, &idle, true, Duration::from_secs(10), false, |log| mark_actions(log), opts);
    Ok((out, names))
}

fn ev(n: &str) -> Event {
    Event::new_simple(n)
}

fn cancel() -> Vec<Event> {
    vec![ev("error.platform.cancel")]
}

/// (mark arguments, configuration the interpreter held when the action ran, unused)
fn marks(out: &RunOut) -> Vec<(Vec<String>, Vec<u32>, Vec<u32>)> {
    let mut v = vec![];
    for l in &out.trace {
        if let Some(r) = l.strip_prefix("mark ") {
            let (a, c) = r.rsplit_once(" cfg=").unwrap_or((r, ""));
            let args: Vec<String> = a.split('|').map(|x| x.to_string()).collect();
            let rec: Vec<u32> = c.split(',').filter_map(|x| x.parse().ok()).collect();
            v.push((args, rec, vec![]));
        }
    }
    v
}

// ------------------------------------------------------------------------------------- In()

const IN_STATES: &[&str] = &["P", "A", "a1", "a2", "B", "b1", "b2", "X", "top"];

fn in_args() -> String {
    IN_STATES.iter().map(|s| format!("In('{}')", s)).collect::<Vec<_>>().join(", ")
}

fn in_doc(dm: &str, p: &mut Prng) -> (String, Vec<String>) {
    let m = |k: u32| format!("<script>mark({}, {})</script>", k, in_args());
    let g = |s: &str| format!("In('{}')", s);
    // guards: the first transition of each pair is guarded; which target is reached reveals the value
    let guard_state = *p.pick(&["b1", "b2", "a2", "X"]);
    let xml = format!(
        "<scxml xmlns=\"http://www.w3.org/2005/07/scxml\" version=\"1.0\" datamodel=\"{dm}\" name=\"m\" initial=\"top\">\
         <state id=\"top\" initial=\"P\">\
          <parallel id=\"P\"><onexit>{m1}</onexit>\
            <state id=\"A\"><onentry>{m2}</onentry><onexit>{m3}</onexit>\
              <state id=\"a1\"><onexit>{m4}</onexit><transition event=\"e\" cond=\"{g1}\" target=\"a2\">{m5}</transition><transition event=\"e\" target=\"a2\">{m6}</transition></state>\
              <state id=\"a2\"><onentry>{m7}</onentry><transition event=\"f\" target=\"a1\">{m8}</transition></state></state>\
            <state id=\"B\">\
              <state id=\"b1\"><onexit>{m9}</onexit><transition event=\"e\" target=\"b2\">{m10}</transition></state>\
              <state id=\"b2\"><onentry>{m11}</onentry><transition event=\"f\" cond=\"{g2}\" target=\"b1\"/></state></state>\
            <transition event=\"x\" target=\"X\">{m12}</transition>\
          </parallel>\
          <state id=\"X\"><onentry>{m13}</onentry><transition event=\"y\" target=\"P\">{m14}</transition></state>\
         </state></scxml>",
        dm = dm,
        m1 = m(1), m2 = m(2), m3 = m(3), m4 = m(4), m5 = m(5), m6 = m(6), m7 = m(7), m8 = m(8), m9 = m(9), m10 = m(10),
        m11 = m(11), m12 = m(12), m13 = m(13), m14 = m(14),
        g1 = g(guard_state), g2 = g(*p.pick(&["a1", "a2", "P"]))
    );
    let n = p.range(3, 8);
    let evs = (0..n).map(|_| (*p.pick(&["e", "f", "x", "y", "e", "f"])).to_string()).collect();
    (xml, evs)
}

fn null_doc(p: &mut Prng) -> (String, Vec<String>) {
    // the null data model has only In(); no content runs, so every guard value shows in the target taken
    let g1 = *p.pick(&["b1", "b2", "a2", "X", "P"]);
    let g2 = *p.pick(&["a1", "a2", "b1", "P"]);
    let xml = format!(
        "<scxml xmlns=\"http://www.w3.org/2005/07/scxml\" version=\"1.0\" datamodel=\"null\" name=\"m\" initial=\"top\">\
         <state id=\"top\" initial=\"P\"><parallel id=\"P\">\
           <state id=\"A\"><state id=\"a1\"><transition event=\"e\" cond=\"In('{g1}')\" target=\"a2\"/><transition event=\"e\" target=\"a3\"/></state>\
             <state id=\"a2\"><transition event=\"f\" target=\"a1\"/></state><state id=\"a3\"><transition event=\"f\" target=\"a1\"/></state></state>\
           <state id=\"B\"><state id=\"b1\"><transition event=\"g\" target=\"b2\"/></state>\
             <state id=\"b2\"><transition event=\"g\" cond=\"In('{g2}')\" target=\"b1\"/><transition event=\"g\" target=\"b3\"/></state><state id=\"b3\"><transition event=\"g\" target=\"b1\"/></state></state>\
           <transition event=\"x\" target=\"X\"/></parallel>\
           <state id=\"X\"><transition event=\"y\" target=\"P\"/></state></state></scxml>",
        g1 = g1,
        g2 = g2
    );
    let n = p.range(3, 9);
    let evs = (0..n).map(|_| (*p.pick(&["e", "f", "g", "g", "x", "y"])).to_string()).collect();
    (format!("{}<!--{}|{}-->", xml, g1, g2), evs)
}

fn check_in(dm: &str, seed: u64, index: u64, rep: &mut Report) {
    let mut p = Prng::for_case(seed ^ 0x1111, index);
    let origin = format!("gen c09-in dm={} seed={} index={}", dm, seed, index);
    if dm == "null" {
        let (xmlc, evs) = null_doc(&mut p);
        let (xml, guards) = xmlc.split_once("<!--").map(|(a, b)| (a.to_string(), b.trim_end_matches("-->").to_string())).unwrap();
        let (g1, g2) = guards.split_once('|').unwrap();
        let mut batches: Vec<Vec<Event>> = evs.iter().map(|e| vec![ev(e)]).collect();
        batches.push(cancel());
        let (out, names) = match run(&xml, batches, &[]) {
            Ok(x) => x,
            Err(e) => {
                rep.disagree(json!({"origin": origin, "xml": xml, "error": e}));
                return;
            }
        };
        // replay: track cfg from the trace; at each `ext e`/`ext g` predict the target from the guard
        let id = |n: &str| *names.get(n).unwrap_or(&0);
        let mut cfg: Vec<u32> = vec![];
        let mut pending: Option<(&str, bool, bool)> = None; // (event, in a1?, in b2?) with guard values
        for l in &out.trace {
            if let Some(n) = l.strip_prefix("ext ") {
                let a1 = cfg.contains(&id("a1"));
                let b2 = cfg.contains(&id("b2"));
                let gv1 = cfg.contains(&id(g1));
                let gv2 = cfg.contains(&id(g2));
                if n == "e" && a1 {
                    pending = Some(("e", gv1, false));
                } else if n == "g" && b2 {
                    pending = Some(("g", false, gv2));
                } else {
                    pending = None;
                }
            } else if let Some(n) = l.strip_prefix("enter ") {
                let s: u32 = n.parse().unwrap_or(0);
                if !cfg.contains(&s) {
                    cfg.push(s);
                }
                if let Some((e, gv1, gv2)) = pending {
                    rep.count("null_guard_evaluations");
                    let want = if e == "e" { if gv1 { "a2" } else { "a3" } } else if gv2 { "b1" } else { "b3" };
                    if [id("a2"), id("a3"), id("b1"), id("b3")].contains(&s) {
                        if s != id(want) {
                            rep.oracle_fail("C09:null:In-guard-disagrees-with-configuration", json!({"origin": origin, "xml": xml, "events": evs, "expected_target": want, "entered": s}));
                        }
                        pending = None;
                    }
                }
            } else if let Some(n) = l.strip_prefix("exit ") {
                let s: u32 = n.parse().unwrap_or(0);
                cfg.retain(|x| *x != s);
            }
        }
        rep.nontrivial.insert(format!("null|{}|{:?}", guards, evs));
        return;
    }
    let (xml, evs) = in_doc(dm, &mut p);
    let mut batches: Vec<Vec<Event>> = evs.iter().map(|e| vec![ev(e)]).collect();
    batches.push(cancel());
    let (out, names) = match run(&xml, batches, &[]) {
        Ok(x) => x,
        Err(e) => {
            rep.disagree(json!({"origin": origin, "xml": xml, "error": e}));
            return;
        }
    };
    if out.panicked || out.timed_out {
        rep.oracle_fail(&format!("C09:{}:session-died", dm), json!({"origin": origin, "xml": xml, "events": evs}));
        return;
    }
    let ms = marks(&out);
    rep.add("in_evaluation_points", ms.len() as u64);
    for (args, recorded, _traced) in &ms {
        // args[0] = mark number, then one In() value per IN_STATES entry
        if args.len() != IN_STATES.len() + 1 {
            rep.oracle_fail(&format!("C09:{}:In-mark-malformed", dm), json!({"origin": origin, "xml": xml, "mark": args}));
            continue;
        }
        for (i, s) in IN_STATES.iter().enumerate() {
            let want = recorded.contains(names.get(*s).unwrap_or(&0));
            let got = args[i + 1] == "true";
            if want != got {
                rep.oracle_fail(
                    &format!("C09:{}:In-disagrees-with-configuration:mark{}", dm, args[0]),
                    json!({"origin": origin, "xml": xml, "events": evs, "state": s, "In": got, "configuration_at_that_moment": recorded, "mark": args[0]}),
                );
            }
        }
    }
    rep.nontrivial.insert(format!("{}|{:?}", dm, evs));
}

// ------------------------------------------------------------------------------------- _event

fn event_fields(dm: &str) -> String {
    let _ = dm;
    "_event.name, _event.type, _event.sendid, _event.origin, _event.origintype, _event.invokeid".to_string()
}

fn check_event(dm: &str, seed: u64, index: u64, rep: &mut Report) {
    let mut p = Prng::for_case(seed ^ 0x2222, index);
    let origin = format!("gen c09-event dm={} seed={} index={}", dm, seed, index);
    let f = event_fields(dm);
    let body = match p.below(4) {
        0 => "<raise event=\"r0\"/>".to_string(),
        1 => "<assign location=\"v0\" expr=\"v0 + 1\"/>".to_string(),
        2 => "<send event=\"i0\" target=\"#_internal\"/>".to_string(),
        _ => "<log label=\"l\" expr=\"v0\"/>".to_string(),
    };
    let xml = format!(
        "<scxml xmlns=\"http://www.w3.org/2005/07/scxml\" version=\"1.0\" datamodel=\"{dm}\" name=\"m\">\
         <datamodel><data id=\"v0\" expr=\"0\"/></datamodel>\
         <state id=\"s\"><onexit><script>mark(3, {f})</script></onexit>\
           <transition event=\"go.*\" target=\"t\"><script>mark(1, {f})</script>{body}<script>mark(2, {f})</script></transition>\
           <transition event=\"r0 i0\"><script>mark(5, {f})</script></transition></state>\
         <state id=\"t\"><onentry><script>mark(4, {f})</script></onentry>\
           <transition event=\"r0 i0\"><script>mark(5, {f})</script></transition></state></scxml>",
        dm = dm,
        f = f,
        body = body
    );
    let name = format!("go.{}", p.pick(&["a", "b.c", "x"]));
    let sendid = if p.chance(1, 2) { Some(format!("sid{}", p.below(9))) } else { None };
    let orig = if p.chance(1, 2) { Some(format!("#_scxml_{}", p.range(100, 200))) } else { None };
    let otype = if p.chance(1, 2) { Some("http://www.w3.org/TR/scxml/#SCXMLEventProcessor".to_string()) } else { None };
    let e = Event {
        name: name.clone(),
        etype: EventType::external,
        sendid: sendid.clone(),
        origin: orig.clone(),
        origin_type: otype.clone(),
        invoke_id: None,
        param_values: if p.chance(1, 2) { Some(vec![ParamPair::new("p", &Data::Integer(5))]) } else { None },
        content: None,
    };
    let (out, _) = match run(&xml, vec![vec![e], cancel()], &[]) {
        Ok(x) => x,
        Err(err) => {
            rep.disagree(json!({"origin": origin, "xml": xml, "error": err}));
            return;
        }
    };
    let ms = marks(&out);
    let get = |k: &str| ms.iter().find(|(a, _, _)| a[0] == k).map(|(a, _, _)| a[1..].to_vec());
    rep.count("event_cases");
    let m1 = get("1");
    if m1.is_none() {
        rep.oracle_fail(&format!("C09:{}:event:transition-not-taken", dm), json!({"origin": origin, "xml": xml}));
        return;
    }
    let m1 = m1.unwrap();
    // unchanged while the event is processed: every mark of this macrostep's first microstep agrees
    for k in ["2", "3", "4"] {
        if let Some(mk) = get(k) {
            if mk != m1 {
                rep.oracle_fail(&format!("C09:{}:event:fields-changed-while-processing", dm), json!({"origin": origin, "xml": xml, "first": m1, "later": mk, "mark": k}));
            }
        } else {
            rep.oracle_fail(&format!("C09:{}:event:mark-missing", dm), json!({"origin": origin, "xml": xml, "mark": k}));
        }
    }
    // the fields show the event that was sent
    let undefined = |s: &str| s == "null" || s == "undefined" || s.is_empty();
    let want = [Some(name.clone()), Some("external".to_string()), sendid, orig, otype, None];
    let fields = ["name", "type", "sendid", "origin", "origintype", "invokeid"];
    for i in 0..6 {
        let ok = match &want[i] {
            Some(v) => m1.get(i).map(|x| x == v).unwrap_or(false),
            None => m1.get(i).map(|x| undefined(x)).unwrap_or(false),
        };
        if !ok {
            rep.oracle_fail(&format!("C09:{}:event:field-{}", dm, fields[i]), json!({"origin": origin, "xml": xml, "seen": m1, "sent": want}));
        }
    }
    // an internal event raised by the body has type internal and its own name
    if let Some(m5) = get("5") {
        if m5[1] != "internal" || !(m5[0] == "r0" || m5[0] == "i0") {
            rep.oracle_fail(&format!("C09:{}:event:internal-event-fields", dm), json!({"origin": origin, "xml": xml, "seen": m5}));
        }
    }
    rep.nontrivial.insert(format!("{}|{}|{:?}", dm, body, m1));
}


// ------------------------------------------------------------------------------------- _event of unmatched events

/// `_event` is bound for EVERY dequeued event, also one no transition matches: an eventless guard
/// evaluated right after such an event (internal, external or platform error) sees that event.
fn check_event_unmatched(dm: &str, kind: &str, rep: &mut Report) {
    let origin = format!("c09-event-unmatched dm={} kind={}", dm, kind);
    // "go" is handled (binds _event = go) and makes the unmatched event happen; then only the guard can move on
    let (body, unmatched, batches): (&str, &str, Vec<Vec<Event>>) = match kind {
        "internal" => ("<raise event=\"u.int\"/>", "u.int", vec![vec![ev("go")], cancel()]),
        "error" => ("<send event=\"x\" type=\"nosuchprocessor\"/>", "error.execution", vec![vec![ev("go")], cancel()]),
        _ => ("", "u.ext", vec![vec![ev("go")], vec![ev("u.ext")], cancel()]),
    };
    let xml = format!(
        "<scxml xmlns=\"http://www.w3.org/2005/07/scxml\" version=\"1.0\" datamodel=\"{dm}\" name=\"m\" initial=\"s0\">\
         <state id=\"s0\"><transition event=\"go\" target=\"s1\">{body}</transition></state>\
         <state id=\"s1\"><transition cond=\"_event.name == '{unmatched}'\" target=\"s2\"><script>mark(1, _event.name, _event.type)</script></transition></state>\
         <state id=\"s2\"/></scxml>",
        dm = dm,
        body = body,
        unmatched = unmatched
    );
    rep.evaluations += 1;
    rep.count("event_unmatched_cases");
    let (out, _) = match run(&xml, batches, &[]) {
        Ok(x) => x,
        Err(err) => {
            rep.disagree(json!({"origin": origin, "xml": xml, "error": err}));
            return;
        }
    };
    let ms = marks(&out);
    let m1 = ms.iter().find(|(a, _, _)| a[0] == "1").map(|(a, _, _)| a[1..].to_vec());
    let want_type = match kind {
        "internal" => "internal",
        "error" => "platform",
        _ => "external",
    };
    match m1 {
        None => rep.oracle_fail(&format!("C09:{}:event-unmatched:{}:not-bound", dm, kind), json!({"origin": origin, "xml": xml, "what": "the eventless guard never saw the unmatched event in _event.name"})),
        Some(v) => {
            if v.first().map(|x| x.as_str()) != Some(unmatched) || v.get(1).map(|x| x.as_str()) != Some(want_type) {
                rep.oracle_fail(&format!("C09:{}:event-unmatched:{}:wrong-fields", dm, kind), json!({"origin": origin, "xml": xml, "seen": v, "expected": [unmatched, want_type]}));
            }
            rep.nontrivial.insert(format!("unmatched|{}|{}", dm, kind));
        }
    }
}

// ------------------------------------------------------------------------------------- late binding: declared from load time

/// with late binding the data of a state that was never entered exist (declared, without value)
/// from load time: content may assign to them without error; the value of the <data> element is
/// bound when the state is first entered
fn check_late_declared(dm: &str, nested: bool, rep: &mut Report) {
    let origin = format!("c09-late-declared dm={} nested={}", dm, nested);
    let inner = if nested {
        "<parallel id=\"p\"><state id=\"s1\"><datamodel><data id=\"w\" expr=\"5\"/></datamodel></state><state id=\"s1b\"/></parallel>"
    } else {
        "<state id=\"s1\"><datamodel><data id=\"w\" expr=\"5\"/></datamodel></state>"
    };
    let tgt = if nested { "p" } else { "s1" };
    let xml = format!(
        "<scxml xmlns=\"http://www.w3.org/2005/07/scxml\" version=\"1.0\" datamodel=\"{dm}\" name=\"m\" binding=\"late\" initial=\"s0\">\
         <state id=\"top\"><transition event=\"error.execution\"><script>mark(990)</script></transition>\
           <state id=\"s0\"><onentry><assign location=\"w\" expr=\"1\"/><script>mark(1, w)</script></onentry>\
             <transition event=\"go\" target=\"{tgt}\"/></state>\
           {inner}\
           <transition event=\"after\"><script>mark(2, w)</script></transition>\
         </state></scxml>",
        dm = dm,
        tgt = tgt,
        inner = inner
    );
    rep.evaluations += 1;
    rep.count("late_declared_cases");
    let (out, _) = match run(&xml, vec![vec![ev("go")], vec![ev("after")], cancel()], &[]) {
        Ok(x) => x,
        Err(err) => {
            rep.disagree(json!({"origin": origin, "xml": xml, "error": err}));
            return;
        }
    };
    let ms = marks(&out);
    let get = |k: &str| ms.iter().find(|(a, _, _)| a[0] == k).map(|(a, _, _)| a[1..].to_vec());
    let errors = ms.iter().filter(|(a, _, _)| a[0] == "990").count();
    let info = |w: &str| json!({"origin": origin, "xml": xml, "what": w, "marks": ms.iter().map(|(a, _, _)| a.clone()).collect::<Vec<_>>()});
    if errors != 0 || get("1").map(|v| v.first().map(|x| x == "1").unwrap_or(false)) != Some(true) {
        rep.oracle_fail(&format!("C09:{}:late:not-declared-at-load", dm), info("assigning to the <data> of a not yet entered state failed: the element does not exist before the state is entered"));
    } else if get("2").map(|v| v.first().map(|x| x == "5").unwrap_or(false)) != Some(true) {
        rep.oracle_fail(&format!("C09:{}:late:value-not-bound-at-first-entry", dm), info("the <data> value was not bound when the state was first entered"));
    } else {
        rep.nontrivial.insert(format!("late-declared|{}|{}", dm, nested));
    }
}

// ------------------------------------------------------------------------------------- system variables

fn check_sysvar(dm: &str, seed: u64, index: u64, rep: &mut Report) {
    let mut p = Prng::for_case(seed ^ 0x3333, index);
    let origin = format!("gen c09-sysvar dm={} seed={} index={}", dm, seed, index);
    // (what is attacked, expression that reads it back, the attempt)
    let targets: Vec<(&str, &str, String)> = vec![
        ("_sessionid", "_sessionid", "<assign location=\"_sessionid\" expr=\"99\"/>".into()),
        ("_sessionid-script", "_sessionid", "<script>_sessionid = 99</script>".into()),
        ("_name", "_name", "<assign location=\"_name\" expr=\"'other'\"/>".into()),
        ("_name-script", "_name", "<script>_name = 'other'</script>".into()),
        ("_ioprocessors", "_ioprocessors.scxml.location", "<assign location=\"_ioprocessors\" expr=\"5\"/>".into()),
        ("_ioprocessors.scxml.location", "_ioprocessors.scxml.location", "<assign location=\"_ioprocessors.scxml.location\" expr=\"'x'\"/>".into()),
        ("_event", "_event.name", "<assign location=\"_event\" expr=\"5\"/>".into()),
        ("_event.name", "_event.name", "<assign location=\"_event.name\" expr=\"'x'\"/>".into()),
        ("_event.name-script", "_event.name", "<script>_event.name = 'x'</script>".into()),
        ("_event.type", "_event.type", "<assign location=\"_event.type\" expr=\"'x'\"/>".into()),
        ("_event.data", "_event.name", "<assign location=\"_event.data\" expr=\"7\"/>".into()),
        // locations other elements write to
        ("_name-idlocation", "_name", "<send event=\"x\" target=\"#_internal\" idlocation=\"_name\"/>".into()),
        ("_sessionid-idlocation", "_sessionid", "<send event=\"x\" target=\"#_internal\" idlocation=\"_sessionid\"/>".into()),
        ("_sessionid-foreach-index", "_sessionid", "<foreach array=\"[1,2]\" item=\"it\" index=\"_sessionid\"></foreach>".into()),
        ("_name-foreach-item", "_name", "<foreach array=\"[1,2]\" item=\"_name\"></foreach>".into()),
    ];
    let (what, read, attempt) = targets[p.below(targets.len() as u64) as usize].clone();
    let strict = dm == "ecmascript" && p.chance(1, 2);
    let xml = format!(
        "<scxml xmlns=\"http://www.w3.org/2005/07/scxml\" version=\"1.0\" datamodel=\"{dm}\" name=\"m\">\
         <state id=\"s\"><transition event=\"error.execution\"><script>mark(990)</script></transition>\
           <transition event=\"go\"><script>mark(1, {read})</script>{attempt}</transition>\
           <transition event=\"go2\"><script>mark(1, {read})</script>{attempt}<script>mark(2, {read})</script></transition>\
           <transition event=\"after\"><script>mark(3, {read})</script></transition></state></scxml>",
        dm = dm,
        read = read,
        attempt = attempt
    );
    let opts: Vec<(String, String)> = if strict { vec![("ecma:strict".to_string(), "true".to_string())] } else { vec![] };
    // "go": attempt alone (an erroring attempt ends the block); "go2": attempt followed by a read in the same block
    let first = if p.chance(1, 2) { "go" } else { "go2" };
    let (out, _) = match run(&xml, vec![vec![ev(first)], vec![ev("after")], cancel()], &opts) {
        Ok(x) => x,
        Err(err) => {
            rep.disagree(json!({"origin": origin, "xml": xml, "error": err}));
            return;
        }
    };
    rep.count(&format!("sysvar_{}", what));
    let ms = marks(&out);
    let get = |k: &str| ms.iter().find(|(a, _, _)| a[0] == k).map(|(a, _, _)| a[1..].to_vec());
    let errors = ms.iter().filter(|(a, _, _)| a[0] == "990").count();
    let base = format!("C09:{}{}:sysvar:{}", dm, if strict { "-strict" } else { "" }, what);
    let info = |w: &str| json!({"origin": origin, "xml": xml, "what": w, "attacked": what, "marks": ms.iter().map(|(a, _, _)| a.clone()).collect::<Vec<_>>()});
    if out.panicked || out.timed_out {
        rep.oracle_fail(&format!("{}:session-died", base), info("session died"));
        return;
    }
    let before = get("1");
    // the value read during the same event ("after" is a new event: _event.name differs by design)
    if before.is_none() {
        rep.oracle_fail(&format!("{}:no-first-mark", base), info("first mark missing"));
        return;
    }
    if let Some(same_block) = get("2") {
        // the block went on after the attempt (it should not have): at least the value must be intact
        if Some(same_block) != before.clone().map(|b| b) {
            rep.oracle_fail(&format!("{}:value-changed", base), info("system variable changed by the attempt"));
        }
    }
    if read != "_event.name" && read != "_event.type" {
        let after = get("3");
        if after != before {
            rep.oracle_fail(&format!("{}:value-changed", base), info("system variable changed"));
        }
    } else if get("3").map(|v| v.first().map(|s| s == "after" || s == "external").unwrap_or(false)) != Some(true) {
        rep.oracle_fail(&format!("{}:value-changed", base), info("_event no longer reflects the current event"));
    }
    if errors != 1 {
        rep.oracle_fail(&format!("{}:{}-error.execution", base, if errors == 0 { "no" } else { "several" }), info("an attempt to modify a system variable must raise exactly one error.execution"));
    }
    rep.nontrivial.insert(format!("{}|{}|{}", dm, what, strict));
}

// ------------------------------------------------------------------------------------- data binding

fn check_binding(dm: &str, seed: u64, index: u64, rep: &mut Report) {
    let mut p = Prng::for_case(seed ^ 0x4444, index);
    let late = p.chance(1, 2);
    let origin = format!("gen c09-binding dm={} late={} seed={} index={}", dm, late, seed, index);
    let defd = |v: &str| if dm == "ecmascript" { format!("(typeof {} !== 'undefined' && {} !== null && {} !== undefined)", v, v, v) } else { format!("isDefined({})", v) };
    let k1 = p.range(1, 9);
    let k2 = p.range(11, 19);
    let xml = format!(
        "<scxml xmlns=\"http://www.w3.org/2005/07/scxml\" version=\"1.0\" datamodel=\"{dm}\" name=\"m\"{binding}>\
         <datamodel><data id=\"v0\" expr=\"{k1}\"/></datamodel>\
         <state id=\"s1\"><onentry><script>mark(1, v0, {d2})</script></onentry>\
           <transition event=\"go\" target=\"s2\"/></state>\
         <state id=\"s2\"><datamodel><data id=\"w2\" expr=\"{k2}\"/></datamodel>\
           <onentry><script>mark(2, w2)</script><assign location=\"w2\" expr=\"w2 + 1\"/></onentry>\
           <transition event=\"back\" target=\"s1\"/></state></scxml>",
        dm = dm,
        binding = if late { " binding=\"late\"" } else { "" },
        k1 = k1,
        k2 = k2,
        d2 = defd("w2")
    );
    let (out, _) = match run(&xml, vec![vec![ev("go")], vec![ev("back")], vec![ev("go")], cancel()], &[]) {
        Ok(x) => x,
        Err(err) => {
            rep.disagree(json!({"origin": origin, "xml": xml, "error": err}));
            return;
        }
    };
    rep.count(if late { "binding_late" } else { "binding_early" });
    let ms = marks(&out);
    let info = |w: &str| json!({"origin": origin, "xml": xml, "what": w, "marks": ms.iter().map(|(a, _, _)| a.clone()).collect::<Vec<_>>()});
    let base = format!("C09:{}:binding-{}", dm, if late { "late" } else { "early" });
    let m1: Vec<&Vec<String>> = ms.iter().filter(|(a, _, _)| a[0] == "1").map(|(a, _, _)| a).collect();
    let m2: Vec<&Vec<String>> = ms.iter().filter(|(a, _, _)| a[0] == "2").map(|(a, _, _)| a).collect();
    if m1.len() != 2 || m2.len() != 2 {
        rep.oracle_fail(&format!("{}:marks-missing", base), info("expected two visits of s1 and of s2"));
        return;
    }
    // top-level data has its value before any content
    if m1[0].get(1).map(|s| s.as_str()) != Some(&k1.to_string()) {
        rep.oracle_fail(&format!("{}:top-level-data-not-initialised", base), info("v0 should have its value before s1's onentry"));
    }
    // w2 before s2 was ever entered: early → has its value (defined); late → exists but has no value yet
    let w2_defined_at_start = m1[0].get(2).map(|s| s == "true").unwrap_or(false);
    if !late && !w2_defined_at_start {
        rep.oracle_fail(&format!("{}:state-data-not-initialised-at-load", base), info("early binding: w2 must have its value before any content runs"));
    }
    if late && w2_defined_at_start {
        rep.oracle_fail(&format!("{}:state-data-initialised-too-early", base), info("late binding: w2 gets its value when s2 is first entered"));
    }
    // first entry of s2: value assigned before onentry
    if m2[0].get(1).map(|s| s.as_str()) != Some(&k2.to_string()) {
        rep.oracle_fail(&format!("{}:value-at-first-entry", base), info("w2 should have its declared value in s2's onentry at first entry"));
    }
    // re-entry: not assigned again (the onentry incremented it)
    if m2[1].get(1).map(|s| s.as_str()) != Some(&(k2 + 1).to_string()) {
        rep.oracle_fail(&format!("{}:reinitialised-on-reentry", base), info("w2 must keep the value assigned by content when s2 is re-entered"));
    }
    rep.nontrivial.insert(format!("{}|{}|{}|{}", dm, late, k1, k2));
}

pub fn run_real(args: &Args, rep: &mut Report) {
    let n = if args.thorough { 1500 } else { 60 };
    for i in 0..n {
        rep.evaluations += 1;
        let dm = ["null", "rfsm-expression", "ecmascript"][(i % 3) as usize];
        check_in(dm, args.seed, i, rep);
        if dm != "null" {
            rep.evaluations += 3;
            check_event(dm, args.seed, i, rep);
            check_sysvar(dm, args.seed, i, rep);
            check_sysvar(dm, args.seed, i + 100_000, rep);
            check_binding(dm, args.seed, i, rep);
        }
    }
    for dm in ["rfsm-expression", "ecmascript"] {
        for kind in ["internal", "external", "error"] {
            check_event_unmatched(dm, kind, rep);
        }
        for nested in [false, true] {
            check_late_declared(dm, nested, rep);
        }
    }
}
