//! Canonical dump of the persisted tables of a real `rufsm::fsm::Fsm` (public fields only;
//! executable content through `ToAny::as_any()` downcasts), in the token form that the Lean driver
//! family `codec` parses and prints (grammar in lean/Driver/Codec.lean).  `MFsm` mirrors the
//! abstract model value of lean/Rfsm/Model/Codec.lean.
//!
//! * `MFsm::from_real` keeps the iteration order of every `HashMap` (that is the order the real
//!   `FsmWriter` uses when it is handed the same, unmodified `Fsm`).
//! * `canon` turns wire-order lists into what a `HashMap` holds: later entries replace earlier ones
//!   with the same key, then sorted by key; doubles are re-rendered from their parsed value.
//! * `persisted_view` is the normal form of the two fields the format stores conditionally by
//!   design: an *empty* transition condition (`cond=""`; `conditionMatch` treats every empty value as
//!   "no condition") becomes `Null`, and `Invoke.parent_state_name` is kept only when `invoke_id`
//!   is empty (the only case in which it is written, read and used).
use rufsm::datamodel::Data;
use rufsm::executable_content::{
    Assign, Cancel, ExecutableContent, Expression, ForEach, If, Log, Raise, Script, SendParameters,
};
use rufsm::fsm::{
    BindingType, CommonContent, DoneData, Fsm, HistoryType, Invoke, Parameter, State, Transition, TransitionType,
};

pub type Bytes = Vec<u8>;

#[derive(Clone, Debug, PartialEq)]
pub enum MData {
    Integer(i64),
    /// text form (`f64::to_string`)
    Double(Bytes),
    Str(Bytes),
    Boolean(bool),
    Array(Vec<MData>),
    Map(Vec<(Bytes, MData)>),
    Null,
    Error(Bytes),
    Source(Bytes, u64),
    None,
}

#[derive(Clone, Debug, PartialEq, Default)]
pub struct MParam {
    pub name: Bytes,
    pub expr: Bytes,
    pub location: Bytes,
}

#[derive(Clone, Debug, PartialEq, Default)]
pub struct MCommon {
    pub content: Option<Bytes>,
    pub content_expr: Option<Bytes>,
}

#[derive(Clone, Debug, PartialEq, Default)]
pub struct MDoneData {
    pub content: Option<MCommon>,
    pub params: Option<Vec<MParam>>,
}

#[derive(Clone, Debug, PartialEq)]
pub struct MInvoke {
    pub invoke_id: Bytes,
    pub parent_state_name: Bytes,
    pub doc_id: u64,
    pub src_expr: MData,
    pub src: MData,
    pub type_expr: MData,
    pub type_name: MData,
    pub external_id_location: Bytes,
    pub autoforward: bool,
    pub finalize: u64,
    pub content: Option<MCommon>,
    pub params: Option<Vec<MParam>>,
    pub name_list: Vec<Bytes>,
}

#[derive(Clone, Debug, PartialEq)]
pub struct MTransition {
    pub id: u64,
    pub doc_id: u64,
    pub source: u64,
    pub target: Vec<u64>,
    pub events: Vec<Bytes>,
    /// true = External
    pub external: bool,
    pub wildcard: bool,
    pub cond: MData,
    pub content: u64,
}

#[derive(Clone, Debug, PartialEq)]
pub struct MState {
    pub id: u64,
    pub doc_id: u64,
    pub name: Bytes,
    /// 0 none, 1 shallow, 2 deep
    pub history_type: u8,
    pub is_parallel: bool,
    pub is_final: bool,
    pub initial: u64,
    pub states: Vec<u64>,
    pub onentry: Vec<u64>,
    pub onexit: Vec<u64>,
    pub transitions: Vec<u64>,
    pub invoke: Vec<MInvoke>,
    pub history: Vec<u64>,
    pub data: Vec<(Bytes, MData)>,
    pub parent: u64,
    pub donedata: Option<MDoneData>,
}

#[derive(Clone, Debug, PartialEq)]
pub struct MSend {
    pub name: Bytes,
    pub target: MData,
    pub target_expr: MData,
    pub content: Option<MCommon>,
    pub name_list: Vec<Bytes>,
    pub name_location: Bytes,
    pub params: Option<Vec<MParam>>,
    pub event: MData,
    pub event_expr: MData,
    pub type_value: MData,
    pub type_expr: MData,
    pub delay_ms: u64,
    pub delay_expr: MData,
}

#[derive(Clone, Debug, PartialEq)]
pub enum MExec {
    If(MData, u64, u64),
    Expression(MData),
    Script(Vec<u64>),
    Log(Bytes, MData),
    ForEach(u64, Bytes, MData, Bytes),
    Send(Box<MSend>),
    Raise(Bytes),
    Cancel(Bytes, MData),
    Assign(MData, MData),
}

#[derive(Clone, Debug, PartialEq)]
pub struct MFsm {
    pub name: Bytes,
    pub datamodel: Bytes,
    /// 1 early, 2 late
    pub binding: u8,
    pub pseudo_root: u64,
    pub script: u64,
    pub states: Vec<MState>,
    pub transitions: Vec<MTransition>,
    pub content: Vec<(u64, Vec<MExec>)>,
}

// ---------------------------------------------------------------- from the real tables

fn b(s: &str) -> Bytes {
    s.as_bytes().to_vec()
}

pub fn data_from_real(d: &Data) -> MData {
    match d {
        Data::Integer(v) => MData::Integer(*v),
        Data::Double(v) => MData::Double(b(&v.to_string())),
        Data::String(s) => MData::Str(b(s)),
        Data::Boolean(v) => MData::Boolean(*v),
        Data::Array(a) => MData::Array(
            a.iter()
                .map(|x| match x.lock() {
                    Ok(g) => data_from_real(&g),
                    Err(_) => MData::Null,
                })
                .collect(),
        ),
        Data::Map(m) => MData::Map(
            m.iter()
                .map(|(k, x)| {
                    (
                        b(k),
                        match x.lock() {
                            Ok(g) => data_from_real(&g),
                            Err(_) => MData::Null,
                        },
                    )
                })
                .collect(),
        ),
        Data::Null() => MData::Null,
        Data::Error(s) => MData::Error(b(s)),
        Data::Source(s) => MData::Source(b(&s.source), s.source_id as u64),
        Data::None() => MData::None,
    }
}

fn common_from_real(c: &CommonContent) -> MCommon {
    MCommon { content: c.content.as_ref().map(|s| b(s)), content_expr: c.content_expr.as_ref().map(|s| b(s)) }
}

fn params_from_real(p: &Option<Vec<Parameter>>) -> Option<Vec<MParam>> {
    p.as_ref().map(|v| {
        v.iter().map(|p| MParam { name: b(&p.name), expr: b(&p.expr), location: b(&p.location) }).collect()
    })
}

fn donedata_from_real(d: &DoneData) -> MDoneData {
    MDoneData { content: d.content.as_ref().map(common_from_real), params: params_from_real(&d.params) }
}

fn invoke_from_real(i: &Invoke) -> MInvoke {
    MInvoke {
        invoke_id: b(&i.invoke_id),
        parent_state_name: b(&i.parent_state_name),
        doc_id: i.doc_id as u64,
        src_expr: data_from_real(&i.src_expr),
        src: data_from_real(&i.src),
        type_expr: data_from_real(&i.type_expr),
        type_name: data_from_real(&i.type_name),
        external_id_location: b(&i.external_id_location),
        autoforward: i.autoforward,
        finalize: i.finalize as u64,
        content: i.content.as_ref().map(common_from_real),
        params: params_from_real(&i.params),
        name_list: i.name_list.iter().map(|s| b(s)).collect(),
    }
}

fn transition_from_real(t: &Transition) -> MTransition {
    MTransition {
        id: t.id as u64,
        doc_id: t.doc_id as u64,
        source: t.source as u64,
        target: t.target.iter().map(|x| *x as u64).collect(),
        events: t.events.iter().map(|s| b(s)).collect(),
        external: t.transition_type == TransitionType::External,
        wildcard: t.wildcard,
        cond: data_from_real(&t.cond),
        content: t.content as u64,
    }
}

fn state_from_real(s: &State) -> MState {
    MState {
        id: s.id as u64,
        doc_id: s.doc_id as u64,
        name: b(&s.name),
        history_type: match s.history_type {
            HistoryType::None => 0,
            HistoryType::Shallow => 1,
            HistoryType::Deep => 2,
        },
        is_parallel: s.is_parallel,
        is_final: s.is_final,
        initial: s.initial as u64,
        states: s.states.iter().map(|x| *x as u64).collect(),
        onentry: s.onentry.iter().map(|x| *x as u64).collect(),
        onexit: s.onexit.iter().map(|x| *x as u64).collect(),
        transitions: s.transitions.iterator().map(|x| *x as u64).collect(),
        invoke: s.invoke.iterator().map(invoke_from_real).collect(),
        history: s.history.iterator().map(|x| *x as u64).collect(),
        data: s
            .data
            .iter()
            .map(|(k, v)| {
                (
                    b(k),
                    match v.lock() {
                        Ok(g) => data_from_real(&g),
                        Err(_) => MData::Null,
                    },
                )
            })
            .collect(),
        parent: s.parent as u64,
        donedata: s.donedata.as_ref().map(donedata_from_real),
    }
}

pub fn exec_from_real(ec: &dyn ExecutableContent) -> Result<MExec, String> {
    let any = ec.as_any();
    let ty = ec.get_type();
    let bad = || format!("executable content of type {} is not the expected struct", ty);
    Ok(match ty {
        0 => {
            let x = any.downcast_ref::<If>().ok_or_else(bad)?;
            MExec::If(data_from_real(&x.condition), x.content as u64, x.else_content as u64)
        }
        1 => {
            let x = any.downcast_ref::<Expression>().ok_or_else(bad)?;
            MExec::Expression(data_from_real(&x.content))
        }
        2 => {
            let x = any.downcast_ref::<Script>().ok_or_else(bad)?;
            MExec::Script(x.content.iter().map(|i| *i as u64).collect())
        }
        3 => {
            let x = any.downcast_ref::<Log>().ok_or_else(bad)?;
            MExec::Log(b(&x.label), data_from_real(&x.expression))
        }
        4 => {
            let x = any.downcast_ref::<ForEach>().ok_or_else(bad)?;
            MExec::ForEach(x.content as u64, b(&x.index), data_from_real(&x.array), b(&x.item))
        }
        5 => {
            let x = any.downcast_ref::<SendParameters>().ok_or_else(bad)?;
            MExec::Send(Box::new(MSend {
                name: b(&x.name),
                target: data_from_real(&x.target),
                target_expr: data_from_real(&x.target_expr),
                content: x.content.as_ref().map(common_from_real),
                name_list: x.name_list.iter().map(|s| b(s)).collect(),
                name_location: b(&x.name_location),
                params: params_from_real(&x.params),
                event: data_from_real(&x.event),
                event_expr: data_from_real(&x.event_expr),
                type_value: data_from_real(&x.type_value),
                type_expr: data_from_real(&x.type_expr),
                delay_ms: x.delay_ms,
                delay_expr: data_from_real(&x.delay_expr),
            }))
        }
        6 => {
            let x = any.downcast_ref::<Raise>().ok_or_else(bad)?;
            MExec::Raise(b(&x.event))
        }
        7 => {
            let x = any.downcast_ref::<Cancel>().ok_or_else(bad)?;
            MExec::Cancel(b(&x.send_id), data_from_real(&x.send_id_expr))
        }
        8 => {
            let x = any.downcast_ref::<Assign>().ok_or_else(bad)?;
            MExec::Assign(data_from_real(&x.expr), data_from_real(&x.location))
        }
        t => return Err(format!("unknown executable content type {}", t)),
    })
}

impl MFsm {
    /// the persisted fields, every `HashMap` in its iteration order
    pub fn from_real(f: &Fsm) -> Result<MFsm, String> {
        let mut content = Vec::new();
        for (id, v) in &f.executableContent {
            let mut l = Vec::new();
            for ec in v {
                l.push(exec_from_real(ec.as_ref())?);
            }
            content.push((*id as u64, l));
        }
        Ok(MFsm {
            name: b(&f.name),
            datamodel: b(&f.datamodel),
            binding: match f.binding {
                BindingType::Early => 1,
                BindingType::Late => 2,
            },
            pseudo_root: f.pseudo_root as u64,
            script: f.script as u64,
            states: f.states.iter().map(state_from_real).collect(),
            transitions: f.transitions.values().map(transition_from_real).collect(),
            content,
        })
    }
}

// ---------------------------------------------------------------- tokens

fn hx(v: &[u8]) -> String {
    crate::proto::hex(v)
}

struct Out(Vec<String>);

impl Out {
    fn p<S: ToString>(&mut self, s: S) {
        self.0.push(s.to_string());
    }
    fn bit(&mut self, v: bool) {
        self.p(if v { "1" } else { "0" });
    }
    fn hex(&mut self, v: &[u8]) {
        self.p(hx(v));
    }
    fn ids(&mut self, v: &[u64]) {
        self.p(v.len());
        for i in v {
            self.p(i);
        }
    }
    fn strs(&mut self, v: &[Bytes]) {
        self.p(v.len());
        for s in v {
            self.hex(s);
        }
    }
    fn data(&mut self, d: &MData) {
        match d {
            MData::Integer(v) => {
                self.p("I");
                if *v < 0 {
                    self.p(format!("m{}", v.unsigned_abs()));
                } else {
                    self.p(v);
                }
            }
            MData::Double(t) => {
                self.p("D");
                self.hex(t);
            }
            MData::Str(s) => {
                self.p("S");
                self.hex(s);
            }
            MData::Boolean(v) => {
                self.p("B");
                self.bit(*v);
            }
            MData::Array(a) => {
                self.p("A");
                self.p(a.len());
                for x in a {
                    self.data(x);
                }
            }
            MData::Map(m) => {
                self.p("M");
                self.p(m.len());
                for (k, x) in m {
                    self.hex(k);
                    self.data(x);
                }
            }
            MData::Null => self.p("N"),
            MData::Error(s) => {
                self.p("E");
                self.hex(s);
            }
            MData::Source(s, id) => {
                self.p("C");
                self.hex(s);
                self.p(id);
            }
            MData::None => self.p("O"),
        }
    }
    fn optstr(&mut self, o: &Option<Bytes>) {
        match o {
            None => self.p("n"),
            Some(s) => {
                self.p("s");
                self.hex(s);
            }
        }
    }
    fn optcommon(&mut self, o: &Option<MCommon>) {
        match o {
            None => self.p("0"),
            Some(c) => {
                self.p("1");
                self.optstr(&c.content);
                self.optstr(&c.content_expr);
            }
        }
    }
    fn params(&mut self, o: &Option<Vec<MParam>>) {
        match o {
            None => self.p("n"),
            Some(v) => {
                self.p("p");
                self.p(v.len());
                for p in v {
                    self.hex(&p.name);
                    self.hex(&p.expr);
                    self.hex(&p.location);
                }
            }
        }
    }
    fn invoke(&mut self, i: &MInvoke) {
        self.hex(&i.invoke_id);
        self.hex(&i.parent_state_name);
        self.p(i.doc_id);
        self.data(&i.src_expr);
        self.data(&i.src);
        self.data(&i.type_expr);
        self.data(&i.type_name);
        self.hex(&i.external_id_location);
        self.bit(i.autoforward);
        self.p(i.finalize);
        self.optcommon(&i.content);
        self.params(&i.params);
        self.strs(&i.name_list);
    }
    fn transition(&mut self, t: &MTransition) {
        self.p(t.id);
        self.p(t.doc_id);
        self.p(t.source);
        self.ids(&t.target);
        self.strs(&t.events);
        self.bit(t.external);
        self.bit(t.wildcard);
        self.data(&t.cond);
        self.p(t.content);
    }
    fn state(&mut self, s: &MState) {
        self.p(s.id);
        self.p(s.doc_id);
        self.hex(&s.name);
        self.p(s.history_type);
        self.bit(s.is_parallel);
        self.bit(s.is_final);
        self.p(s.initial);
        self.ids(&s.states);
        self.ids(&s.onentry);
        self.ids(&s.onexit);
        self.ids(&s.transitions);
        self.p(s.invoke.len());
        for i in &s.invoke {
            self.invoke(i);
        }
        self.ids(&s.history);
        self.p(s.data.len());
        for (k, d) in &s.data {
            self.hex(k);
            self.data(d);
        }
        self.p(s.parent);
        match &s.donedata {
            None => self.p("0"),
            Some(d) => {
                self.p("1");
                self.optcommon(&d.content);
                self.params(&d.params);
            }
        }
    }
    fn send(&mut self, s: &MSend) {
        self.hex(&s.name);
        self.data(&s.target);
        self.data(&s.target_expr);
        self.optcommon(&s.content);
        self.strs(&s.name_list);
        self.hex(&s.name_location);
        self.params(&s.params);
        self.data(&s.event);
        self.data(&s.event_expr);
        self.data(&s.type_value);
        self.data(&s.type_expr);
        self.p(s.delay_ms);
        self.data(&s.delay_expr);
    }
    fn exec(&mut self, e: &MExec) {
        match e {
            MExec::If(c, a, b) => {
                self.p("x0");
                self.data(c);
                self.p(a);
                self.p(b);
            }
            MExec::Expression(c) => {
                self.p("x1");
                self.data(c);
            }
            MExec::Script(l) => {
                self.p("x2");
                self.ids(l);
            }
            MExec::Log(l, e) => {
                self.p("x3");
                self.hex(l);
                self.data(e);
            }
            MExec::ForEach(c, i, a, it) => {
                self.p("x4");
                self.p(c);
                self.hex(i);
                self.data(a);
                self.hex(it);
            }
            MExec::Send(s) => {
                self.p("x5");
                self.send(s);
            }
            MExec::Raise(e) => {
                self.p("x6");
                self.hex(e);
            }
            MExec::Cancel(i, e) => {
                self.p("x7");
                self.hex(i);
                self.data(e);
            }
            MExec::Assign(e, l) => {
                self.p("x8");
                self.data(e);
                self.data(l);
            }
        }
    }
}

pub fn data_tokens(d: &MData) -> String {
    let mut o = Out(vec![]);
    o.data(d);
    o.0.join(" ")
}

pub fn optstr_tokens(s: &Option<Bytes>) -> String {
    let mut o = Out(vec![]);
    o.optstr(s);
    o.0.join(" ")
}

impl MFsm {
    pub fn tokens(&self) -> String {
        let mut o = Out(vec![]);
        o.hex(&self.name);
        o.hex(&self.datamodel);
        o.p(self.binding);
        o.p(self.pseudo_root);
        o.p(self.script);
        o.p(self.states.len());
        for s in &self.states {
            o.state(s);
        }
        o.p(self.transitions.len());
        for t in &self.transitions {
            o.transition(t);
        }
        o.p(self.content.len());
        for (id, l) in &self.content {
            o.p(id);
            o.p(l.len());
            for e in l {
                o.exec(e);
            }
        }
        o.0.join(" ")
    }
}

// ---------------------------------------------------------------- parsing tokens

pub struct In<'a> {
    t: Vec<&'a str>,
    i: usize,
}

type R<T> = Result<T, String>;

impl<'a> In<'a> {
    pub fn new(s: &'a str) -> In<'a> {
        In { t: s.split_whitespace().collect(), i: 0 }
    }
    pub fn done(&self) -> bool {
        self.i == self.t.len()
    }
    pub fn tok(&mut self) -> R<&'a str> {
        if self.i < self.t.len() {
            self.i += 1;
            Ok(self.t[self.i - 1])
        } else {
            Err("unexpected end of tokens".into())
        }
    }
    pub fn nat(&mut self) -> R<u64> {
        let t = self.tok()?;
        t.parse::<u64>().map_err(|e| format!("nat '{}': {}", t, e))
    }
    fn big(&mut self) -> R<u128> {
        let t = self.tok()?;
        t.parse::<u128>().map_err(|e| format!("nat '{}': {}", t, e))
    }
    pub fn hex(&mut self) -> R<Bytes> {
        let t = self.tok()?;
        crate::proto::unhex(t).ok_or_else(|| format!("hex '{}'", t))
    }
    pub fn bit(&mut self) -> R<bool> {
        match self.tok()? {
            "0" => Ok(false),
            "1" => Ok(true),
            t => Err(format!("bit '{}'", t)),
        }
    }
    fn ids(&mut self) -> R<Vec<u64>> {
        let n = self.nat()?;
        (0..n).map(|_| self.nat()).collect()
    }
    fn strs(&mut self) -> R<Vec<Bytes>> {
        let n = self.nat()?;
        (0..n).map(|_| self.hex()).collect()
    }
    pub fn data(&mut self) -> R<MData> {
        Ok(match self.tok()? {
            "I" => {
                let t = self.tok()?;
                if let Some(r) = t.strip_prefix('m') {
                    let v = r.parse::<u128>().map_err(|e| e.to_string())?;
                    if v > (1u128 << 63) {
                        return Err(format!("integer out of i64 range: -{}", v));
                    }
                    MData::Integer((v as i128).wrapping_neg() as i64)
                } else {
                    MData::Integer(t.parse::<i64>().map_err(|e| e.to_string())?)
                }
            }
            "D" => MData::Double(self.hex()?),
            "S" => MData::Str(self.hex()?),
            "B" => MData::Boolean(self.bit()?),
            "A" => {
                let n = self.nat()?;
                MData::Array((0..n).map(|_| self.data()).collect::<R<Vec<_>>>()?)
            }
            "M" => {
                let n = self.nat()?;
                let mut v = Vec::new();
                for _ in 0..n {
                    let k = self.hex()?;
                    v.push((k, self.data()?));
                }
                MData::Map(v)
            }
            "N" => MData::Null,
            "E" => MData::Error(self.hex()?),
            "C" => {
                let s = self.hex()?;
                MData::Source(s, self.nat()?)
            }
            "O" => MData::None,
            t => return Err(format!("data tag '{}'", t)),
        })
    }
    pub fn optstr(&mut self) -> R<Option<Bytes>> {
        match self.tok()? {
            "n" => Ok(None),
            "s" => Ok(Some(self.hex()?)),
            t => Err(format!("optstr '{}'", t)),
        }
    }
    fn optcommon(&mut self) -> R<Option<MCommon>> {
        if self.bit()? {
            let content = self.optstr()?;
            let content_expr = self.optstr()?;
            Ok(Some(MCommon { content, content_expr }))
        } else {
            Ok(None)
        }
    }
    fn params(&mut self) -> R<Option<Vec<MParam>>> {
        match self.tok()? {
            "n" => Ok(None),
            "p" => {
                let n = self.nat()?;
                let mut v = Vec::new();
                for _ in 0..n {
                    let name = self.hex()?;
                    let expr = self.hex()?;
                    let location = self.hex()?;
                    v.push(MParam { name, expr, location });
                }
                Ok(Some(v))
            }
            t => Err(format!("params '{}'", t)),
        }
    }
    fn invoke(&mut self) -> R<MInvoke> {
        Ok(MInvoke {
            invoke_id: self.hex()?,
            parent_state_name: self.hex()?,
            doc_id: self.nat()?,
            src_expr: self.data()?,
            src: self.data()?,
            type_expr: self.data()?,
            type_name: self.data()?,
            external_id_location: self.hex()?,
            autoforward: self.bit()?,
            finalize: self.nat()?,
            content: self.optcommon()?,
            params: self.params()?,
            name_list: self.strs()?,
        })
    }
    fn transition(&mut self) -> R<MTransition> {
        Ok(MTransition {
            id: self.nat()?,
            doc_id: self.nat()?,
            source: self.nat()?,
            target: self.ids()?,
            events: self.strs()?,
            external: self.bit()?,
            wildcard: self.bit()?,
            cond: self.data()?,
            content: self.nat()?,
        })
    }
    fn state(&mut self) -> R<MState> {
        let id = self.nat()?;
        let doc_id = self.nat()?;
        let name = self.hex()?;
        let history_type = self.nat()? as u8;
        let is_parallel = self.bit()?;
        let is_final = self.bit()?;
        let initial = self.nat()?;
        let states = self.ids()?;
        let onentry = self.ids()?;
        let onexit = self.ids()?;
        let transitions = self.ids()?;
        let n = self.nat()?;
        let invoke = (0..n).map(|_| self.invoke()).collect::<R<Vec<_>>>()?;
        let history = self.ids()?;
        let n = self.nat()?;
        let mut data = Vec::new();
        for _ in 0..n {
            let k = self.hex()?;
            data.push((k, self.data()?));
        }
        let parent = self.nat()?;
        let donedata = if self.bit()? {
            let content = self.optcommon()?;
            let params = self.params()?;
            Some(MDoneData { content, params })
        } else {
            None
        };
        Ok(MState {
            id,
            doc_id,
            name,
            history_type,
            is_parallel,
            is_final,
            initial,
            states,
            onentry,
            onexit,
            transitions,
            invoke,
            history,
            data,
            parent,
            donedata,
        })
    }
    fn send(&mut self) -> R<MSend> {
        Ok(MSend {
            name: self.hex()?,
            target: self.data()?,
            target_expr: self.data()?,
            content: self.optcommon()?,
            name_list: self.strs()?,
            name_location: self.hex()?,
            params: self.params()?,
            event: self.data()?,
            event_expr: self.data()?,
            type_value: self.data()?,
            type_expr: self.data()?,
            delay_ms: {
                let v = self.big()?;
                if v > u64::MAX as u128 {
                    return Err("delay out of u64 range".into());
                }
                v as u64
            },
            delay_expr: self.data()?,
        })
    }
    fn exec(&mut self) -> R<MExec> {
        Ok(match self.tok()? {
            "x0" => {
                let c = self.data()?;
                let a = self.nat()?;
                MExec::If(c, a, self.nat()?)
            }
            "x1" => MExec::Expression(self.data()?),
            "x2" => MExec::Script(self.ids()?),
            "x3" => {
                let l = self.hex()?;
                MExec::Log(l, self.data()?)
            }
            "x4" => {
                let c = self.nat()?;
                let i = self.hex()?;
                let a = self.data()?;
                MExec::ForEach(c, i, a, self.hex()?)
            }
            "x5" => MExec::Send(Box::new(self.send()?)),
            "x6" => MExec::Raise(self.hex()?),
            "x7" => {
                let i = self.hex()?;
                MExec::Cancel(i, self.data()?)
            }
            "x8" => {
                let e = self.data()?;
                MExec::Assign(e, self.data()?)
            }
            t => return Err(format!("exec tag '{}'", t)),
        })
    }
    pub fn fsm(&mut self) -> R<MFsm> {
        let name = self.hex()?;
        let datamodel = self.hex()?;
        let binding = self.nat()? as u8;
        let pseudo_root = self.nat()?;
        let script = self.nat()?;
        let n = self.nat()?;
        let states = (0..n).map(|_| self.state()).collect::<R<Vec<_>>>()?;
        let n = self.nat()?;
        let transitions = (0..n).map(|_| self.transition()).collect::<R<Vec<_>>>()?;
        let n = self.nat()?;
        let mut content = Vec::new();
        for _ in 0..n {
            let id = self.nat()?;
            let k = self.nat()?;
            content.push((id, (0..k).map(|_| self.exec()).collect::<R<Vec<_>>>()?));
        }
        Ok(MFsm { name, datamodel, binding, pseudo_root, script, states, transitions, content })
    }
}

impl MFsm {
    pub fn parse(tokens: &str) -> Result<MFsm, String> {
        let mut i = In::new(tokens);
        let f = i.fsm()?;
        if !i.done() {
            return Err("trailing tokens after fsm".into());
        }
        Ok(f)
    }
}

// ---------------------------------------------------------------- canonical forms

fn last_wins_sorted<K: Ord + Clone, V>(v: Vec<(K, V)>) -> Vec<(K, V)> {
    let mut m = std::collections::BTreeMap::new();
    for (k, x) in v {
        m.insert(k, x);
    }
    m.into_iter().collect()
}

impl MData {
    pub fn canon(self) -> MData {
        match self {
            MData::Double(t) => {
                let s = String::from_utf8_lossy(&t).to_string();
                match s.parse::<f64>() {
                    Ok(v) => MData::Double(format!("{}#{:016x}", v, if v.is_nan() { 0 } else { v.to_bits() }).into_bytes()),
                    Err(_) => MData::Double(t),
                }
            }
            MData::Array(a) => MData::Array(a.into_iter().map(|x| x.canon()).collect()),
            MData::Map(m) => MData::Map(last_wins_sorted(m.into_iter().map(|(k, x)| (k, x.canon())).collect())),
            d => d,
        }
    }
    pub fn is_empty(&self) -> bool {
        match self {
            MData::Boolean(_) | MData::Integer(_) | MData::Double(_) => false,
            MData::Str(s) => s.is_empty(),
            MData::Array(a) => a.is_empty(),
            MData::Map(m) => m.is_empty(),
            MData::Null => true,
            MData::Error(_) => true,
            MData::Source(s, _) => s.is_empty(),
            MData::None => true,
        }
    }
    /// visits every string and every unsigned integer that the writer emits for this value
    pub fn visit(&self, fs: &mut dyn FnMut(&[u8]), fu: &mut dyn FnMut(u64)) {
        match self {
            MData::Integer(v) => fs(v.to_string().as_bytes()),
            MData::Double(t) | MData::Str(t) | MData::Error(t) => fs(t),
            MData::Source(s, id) => {
                fs(s);
                fu(*id);
            }
            MData::Array(a) => {
                fu(a.len() as u64);
                for x in a {
                    x.visit(fs, fu);
                }
            }
            MData::Map(m) => {
                fu(m.len() as u64);
                for (k, x) in m {
                    fs(k);
                    x.visit(fs, fu);
                }
            }
            _ => {}
        }
    }
}

fn canon_common(_c: &mut Option<MCommon>) {}

impl MExec {
    fn map_data(self, f: &dyn Fn(MData) -> MData) -> MExec {
        match self {
            MExec::If(c, a, b) => MExec::If(f(c), a, b),
            MExec::Expression(c) => MExec::Expression(f(c)),
            MExec::Log(l, e) => MExec::Log(l, f(e)),
            MExec::ForEach(c, i, a, it) => MExec::ForEach(c, i, f(a), it),
            MExec::Send(s) => {
                let s = *s;
                MExec::Send(Box::new(MSend {
                    target: f(s.target),
                    target_expr: f(s.target_expr),
                    event: f(s.event),
                    event_expr: f(s.event_expr),
                    type_value: f(s.type_value),
                    type_expr: f(s.type_expr),
                    delay_expr: f(s.delay_expr),
                    ..s
                }))
            }
            MExec::Cancel(i, e) => MExec::Cancel(i, f(e)),
            MExec::Assign(e, l) => MExec::Assign(f(e), f(l)),
            x => x,
        }
    }
}

impl MFsm {
    /// what the tables of a real `Fsm` hold after the listed entries were inserted in order
    pub fn canon(self) -> MFsm {
        let cd = |d: MData| d.canon();
        let states = self
            .states
            .into_iter()
            .map(|mut s| {
                s.data = last_wins_sorted(s.data.into_iter().map(|(k, d)| (k, d.canon())).collect());
                s.invoke = s
                    .invoke
                    .into_iter()
                    .map(|mut i| {
                        i.src = i.src.canon();
                        i.src_expr = i.src_expr.canon();
                        i.type_expr = i.type_expr.canon();
                        i.type_name = i.type_name.canon();
                        canon_common(&mut i.content);
                        i
                    })
                    .collect();
                s
            })
            .collect();
        let transitions = last_wins_sorted(
            self.transitions
                .into_iter()
                .map(|mut t| {
                    t.cond = t.cond.canon();
                    (t.id, t)
                })
                .collect(),
        )
        .into_iter()
        .map(|(_, t)| t)
        .collect();
        let content = last_wins_sorted(
            self.content.into_iter().map(|(id, l)| (id, l.into_iter().map(|e| e.map_data(&cd)).collect())).collect(),
        );
        MFsm { states, transitions, content, ..self }
    }

    /// normal form of the two conditionally stored fields (see the module comment)
    pub fn persisted_view(mut self) -> MFsm {
        for t in &mut self.transitions {
            if t.cond.is_empty() {
                t.cond = MData::Null;
            }
        }
        for s in &mut self.states {
            for i in &mut s.invoke {
                if !i.invoke_id.is_empty() {
                    i.parent_state_name.clear();
                }
            }
        }
        self
    }

    /// every string and unsigned integer the writer emits for this model (for classifying findings)
    pub fn visit(&self, fs: &mut dyn FnMut(&[u8]), fu: &mut dyn FnMut(u64)) {
        fn vparams(p: &Option<Vec<MParam>>, fs: &mut dyn FnMut(&[u8])) {
            if let Some(v) = p {
                for p in v {
                    fs(&p.name);
                    fs(&p.expr);
                    fs(&p.location);
                }
            }
        }
        fn vcommon(c: &Option<MCommon>, fs: &mut dyn FnMut(&[u8])) {
            if let Some(c) = c {
                if let Some(s) = &c.content {
                    fs(s);
                }
                if let Some(s) = &c.content_expr {
                    fs(s);
                }
            }
        }
        fs(&self.name);
        fs(&self.datamodel);
        for s in &self.states {
            fs(&s.name);
            for (k, d) in &s.data {
                fs(k);
                d.visit(fs, fu);
            }
            for i in &s.invoke {
                fs(&i.invoke_id);
                if i.invoke_id.is_empty() {
                    fs(&i.parent_state_name);
                }
                fs(&i.external_id_location);
                for d in [&i.src_expr, &i.src, &i.type_expr, &i.type_name] {
                    d.visit(fs, fu);
                }
                vcommon(&i.content, fs);
                vparams(&i.params, fs);
                for n in &i.name_list {
                    fs(n);
                }
            }
            if let Some(d) = &s.donedata {
                vcommon(&d.content, fs);
                vparams(&d.params, fs);
            }
        }
        for t in &self.transitions {
            for e in &t.events {
                fs(e);
            }
            if !t.cond.is_empty() {
                t.cond.visit(fs, fu);
            }
        }
        for (_, l) in &self.content {
            for e in l {
                match e {
                    MExec::If(c, _, _) => c.visit(fs, fu),
                    MExec::Expression(c) => c.visit(fs, fu),
                    MExec::Script(_) => {}
                    MExec::Log(l, e) => {
                        fs(l);
                        e.visit(fs, fu);
                    }
                    MExec::ForEach(_, i, a, it) => {
                        fs(i);
                        a.visit(fs, fu);
                        fs(it);
                    }
                    MExec::Send(s) => {
                        fs(&s.name);
                        fs(&s.name_location);
                        for d in [
                            &s.target,
                            &s.target_expr,
                            &s.event,
                            &s.event_expr,
                            &s.type_value,
                            &s.type_expr,
                            &s.delay_expr,
                        ] {
                            d.visit(fs, fu);
                        }
                        vcommon(&s.content, fs);
                        vparams(&s.params, fs);
                        for n in &s.name_list {
                            fs(n);
                        }
                        fu(s.delay_ms);
                    }
                    MExec::Raise(e) => fs(e),
                    MExec::Cancel(i, e) => {
                        fs(i);
                        e.visit(fs, fu);
                    }
                    MExec::Assign(e, l) => {
                        e.visit(fs, fu);
                        l.visit(fs, fu);
                    }
                }
            }
        }
    }
}
