//! C16 — delayed sends.  Family `c16`.
//!
//! Part A (pure, exact): `parse_duration_to_milliseconds` and the reader's `delay` attribute against
//! the model's `parseDuration` and the independent CSS2 recogniser, on boundary-heavy strings.
//!
//! Part B (real time): real sessions (`datamodel="rfsm-expression"`), kept alive and driven by
//! events sent at planned times.  An operation script (send with/without id, several pending,
//! cancel before/after due, cancel of other ids, data change after a send, termination before due,
//! two sender sessions with the same send ids) is laid out on a time grid: operations at multiples
//! of 80 ms, due times at odd multiples of 40 ms, so every due time is ≥ 40 ms away from every other
//! due time and from every operation.  The same script runs through the Lean model (`timer run`),
//! and the observed arrival sequences at each receiver are compared with the model's.  Independently
//! the property's predicate (`timer oracle`) is evaluated on the observed time stamps
//! (`Instant::now()` inside a custom `mark` action, bracketing every `<send>`/`<cancel>`): "not
//! early" with zero tolerance against the stamp taken *before* the `<send>` executed, everything
//! else only where the brackets decide it.  A run whose stamps show a scheduling stall larger than
//! half the margin is repeated (at most 3 attempts) before its sequence is compared.
use crate::obs::{xml_attr, RecTracer};
use crate::prng::Prng;
use crate::proto::{hexs, Model};
use crate::report::Report;
use crate::Args;
use rufsm::actions::{Action, ActionWrapper};
use rufsm::datamodel::{Data, ToAny};
use rufsm::executable_content::{parse_duration_to_milliseconds, SendParameters};
use rufsm::fsm::{self, Event, FinishMode, GlobalData, ScxmlSession, EVENT_CANCEL_SESSION};
use rufsm::fsm_executor::FsmExecutor;
use rufsm::scxml_reader;
use serde_json::{json, Value};
use std::collections::BTreeMap;
use std::sync::atomic::{AtomicUsize, Ordering};
use std::sync::{Arc, Mutex};
use std::time::{Duration, Instant};

// ------------------------------------------------------------------------------------------------
// observation: the `mark` action
// ------------------------------------------------------------------------------------------------

#[derive(Clone, Debug)]
pub struct Rec {
    pub sess: u32,
    pub label: String,
    pub a1: String,
    pub a2: String,
    pub a3: String,
    pub at: Instant,
    /// the clock the `timer` crate schedules by
    pub wall: std::time::SystemTime,
}

type Marks = Arc<Mutex<Vec<Rec>>>;

#[derive(Clone)]
struct Mark {
    log: Marks,
}

impl Action for Mark {
    fn execute(&self, arguments: &[Data], global: &GlobalData) -> Result<Data, String> {
        let at = Instant::now();
        let wall = std::time::SystemTime::now();
        let s = |i: usize| arguments.get(i).map(|d| d.to_string()).unwrap_or_default();
        self.log.lock().unwrap_or_else(|e| e.into_inner()).push(Rec {
            sess: global.session_id,
            label: s(0),
            a1: s(1),
            a2: s(2),
            a3: s(3),
            at,
            wall,
        });
        Ok(Data::Boolean(true))
    }
    fn get_copy(&self) -> Box<dyn Action> {
        Box::new(self.clone())
    }
}

// ------------------------------------------------------------------------------------------------
// cases
// ------------------------------------------------------------------------------------------------

pub const SLOT: u64 = 40; // ms; operations at even slots, due times at odd slots
const STALL_US: i64 = 20_000; // half the margin
const HB_STALL_US: i64 = 20_000; // a thread of this process woke up this much too late

/// (when, how late in µs) a 1 ms sleep of the monitor thread returned more than 2 ms late
type Heartbeat = Arc<Mutex<Vec<(Instant, i64)>>>;

fn start_heartbeat(stop: Arc<std::sync::atomic::AtomicBool>) -> (Heartbeat, std::thread::JoinHandle<()>) {
    let hb: Heartbeat = Arc::new(Mutex::new(Vec::new()));
    let hb2 = hb.clone();
    let h = std::thread::spawn(move || {
        while !stop.load(Ordering::Relaxed) {
            let t = Instant::now();
            std::thread::sleep(Duration::from_millis(1));
            let over = t.elapsed().as_micros() as i64 - 1000;
            if over > 2000 {
                hb2.lock().unwrap().push((t, over));
            }
        }
    });
    (hb, h)
}

fn hb_stall_between(hb: &Heartbeat, a: Instant, b: Instant) -> i64 {
    hb.lock()
        .unwrap()
        .iter()
        .filter(|(t, over)| *t <= b && *t + Duration::from_micros((*over + 1000) as u64) >= a)
        .map(|x| x.1)
        .max()
        .unwrap_or(0)
}

/// Give the threads created from now on more CPU weight than competing builds (we are root in the
/// verification sandbox; failure is harmless).  Only reduces scheduling noise; every verdict that
/// depends on timing is additionally guarded by the stall rule.
fn raise_priority() -> bool {
    if std::env::var("C16_NO_RENICE").is_ok() {
        return false; // for testing the stall rule on its own
    }
    std::process::Command::new("renice")
        .args(["-n", "-15", "-p", &std::process::id().to_string()])
        .stdout(std::process::Stdio::null())
        .stderr(std::process::Stdio::null())
        .status()
        .map(|s| s.success())
        .unwrap_or(false)
}

#[derive(Clone, Debug)]
pub struct SendSpec {
    pub k: usize,
    pub id: Option<String>,
    /// the text of the delay (attribute `delay`, or the string the `delayexpr` evaluates to)
    pub delay: String,
    /// use `delayexpr` (a string literal) instead of `delay`
    pub expr: bool,
    /// target: the sender's own external queue (no target attribute) instead of the recorder session
    pub to_self: bool,
    /// payload: the current value of `x` (else the constant 1000 + k)
    pub var: bool,
    /// payload: the array `arr` (= `[x]`) handed over by `<param location="arr">` (overrides `var`)
    pub loc: bool,
}

#[derive(Clone, Debug)]
pub enum OpKind {
    Send(Vec<SendSpec>),
    Cancel(String),
    Assign(u64),
    Term,
}

#[derive(Clone, Debug)]
pub struct Op {
    pub sess: usize,
    pub at: u64,
    pub kind: OpKind,
}

#[derive(Clone, Debug)]
pub struct Case {
    pub senders: usize,
    pub ops: Vec<Op>,
    pub horizon: u64,
    /// self-test only: the generated document deliberately deviates from the script (simulates a
    /// defective implementation) so that the oracle must object
    pub sabotage: Option<String>,
}

impl Case {
    pub fn to_json(&self) -> Value {
        let ops: Vec<Value> = self
            .ops
            .iter()
            .map(|o| match &o.kind {
                OpKind::Send(ss) => json!({"s": o.sess, "at": o.at, "op": "send", "sends": ss.iter().map(|s| json!({
                    "k": s.k, "id": s.id, "delay": s.delay, "expr": s.expr, "self": s.to_self, "var": s.var, "loc": s.loc})).collect::<Vec<_>>()}),
                OpKind::Cancel(id) => json!({"s": o.sess, "at": o.at, "op": "cancel", "id": id}),
                OpKind::Assign(n) => json!({"s": o.sess, "at": o.at, "op": "assign", "n": n}),
                OpKind::Term => json!({"s": o.sess, "at": o.at, "op": "term"}),
            })
            .collect();
        match &self.sabotage {
            None => json!({"senders": self.senders, "horizon": self.horizon, "ops": ops}),
            Some(x) => json!({"senders": self.senders, "horizon": self.horizon, "ops": ops, "sabotage": x}),
        }
    }
    pub fn from_json(v: &Value) -> Option<Case> {
        let mut ops = Vec::new();
        for o in v["ops"].as_array()? {
            let sess = o["s"].as_u64()? as usize;
            let at = o["at"].as_u64()?;
            let kind = match o["op"].as_str()? {
                "send" => OpKind::Send(
                    o["sends"]
                        .as_array()?
                        .iter()
                        .map(|s| {
                            Some(SendSpec {
                                k: s["k"].as_u64()? as usize,
                                id: s["id"].as_str().map(|x| x.to_string()),
                                delay: s["delay"].as_str()?.to_string(),
                                expr: s["expr"].as_bool()?,
                                to_self: s["self"].as_bool()?,
                                var: s["var"].as_bool()?,
                                loc: s["loc"].as_bool().unwrap_or(false),
                            })
                        })
                        .collect::<Option<Vec<_>>>()?,
                ),
                "cancel" => OpKind::Cancel(o["id"].as_str()?.to_string()),
                "assign" => OpKind::Assign(o["n"].as_u64()?),
                "term" => OpKind::Term,
                _ => return None,
            };
            ops.push(Op { sess, at, kind });
        }
        Some(Case {
            senders: v["senders"].as_u64()? as usize,
            ops,
            horizon: v["horizon"].as_u64()?,
            sabotage: v.get("sabotage").and_then(|x| x.as_str()).map(|x| x.to_string()),
        })
    }
    fn sends(&self) -> Vec<(usize, u64, &SendSpec)> {
        let mut v = Vec::new();
        for o in &self.ops {
            if let OpKind::Send(ss) = &o.kind {
                for s in ss {
                    v.push((o.sess, o.at, s));
                }
            }
        }
        v
    }
}

fn sender_xml(case: &Case, sess: usize, recorder_id: u32) -> String {
    let mut x = String::new();
    x.push_str(
        "<scxml xmlns=\"http://www.w3.org/2005/07/scxml\" version=\"1.0\" datamodel=\"rfsm-expression\" initial=\"s\">\
         <datamodel><data id=\"x\" expr=\"0\"/><data id=\"arr\" expr=\"[0]\"/></datamodel><state id=\"s\">",
    );
    for (i, o) in case.ops.iter().enumerate() {
        if o.sess != sess {
            continue;
        }
        match &o.kind {
            OpKind::Send(ss) => {
                x.push_str(&format!("<transition event=\"op.{}\">", i));
                for s in ss {
                    let sab = case.sabotage.as_deref().unwrap_or("");
                    x.push_str(&format!("<script>mark('pre',{},{})</script>", s.k, if s.loc { "arr" } else { "x" }));
                    if sab == "drop-send" && s.k == 0 {
                        x.push_str(&format!("<script>mark('post',{},x)</script>", s.k));
                        continue;
                    }
                    let copies = if sab == "dup-send" && s.k == 0 { 2 } else { 1 };
                    for copy in 0..copies {
                    x.push_str(&format!("<send event=\"e.{}\"", s.k));
                    if let Some(id) = &s.id {
                        x.push_str(&format!(" id=\"{}\"", xml_attr(id)));
                    }
                    if !s.to_self {
                        x.push_str(&format!(" target=\"#_scxml_{}\"", recorder_id));
                    }
                    if sab == "short-delay" {
                        x.push_str(" delay=\"85ms\"");
                    } else if s.expr {
                        x.push_str(&format!(" delayexpr=\"{}\"", xml_attr(&format!("'{}'", s.delay))));
                    } else {
                        x.push_str(&format!(" delay=\"{}\"", xml_attr(&s.delay)));
                    }
                    if s.loc || (sab == "late-eval" && s.var) {
                        x.push_str("><param name=\"v\" location=\"arr\"/></send>");
                    } else if s.var {
                        x.push_str("><param name=\"v\" expr=\"x\"/></send>");
                    } else {
                        x.push_str(&format!("><param name=\"v\" expr=\"{}\"/></send>", 1000 + s.k));
                    }
                    let _ = copy;
                    }
                    x.push_str(&format!("<script>mark('post',{},x)</script>", s.k));
                }
                x.push_str("</transition>");
            }
            OpKind::Cancel(id) => {
                let el = if case.sabotage.as_deref() == Some("cancel-noop") { String::new() } else { format!("<cancel sendid=\"{}\"/>", xml_attr(id)) };
                x.push_str(&format!(
                    "<transition event=\"op.{i}\"><script>mark('cpre',{i},x)</script>{el}<script>mark('cpost',{i},x)</script></transition>"
                ));
            }
            OpKind::Assign(n) => {
                x.push_str(&format!(
                    "<transition event=\"op.{i}\"><script>mark('apre',{i},x)</script><assign location=\"x\" expr=\"{n}\"/><assign location=\"arr[0]\" expr=\"{n}\"/><script>mark('apost',{i},x)</script></transition>"
                ));
            }
            OpKind::Term => {
                let tgt = if case.sabotage.as_deref() == Some("no-terminate") { "" } else { " target=\"fin\"" };
                x.push_str(&format!("<transition event=\"op.{i}\"{tgt}><script>mark('tpre',{i},x)</script></transition>"));
            }
        }
    }
    x.push_str(RECV_TRANSITIONS);
    x.push_str("</state><final id=\"fin\"/></scxml>");
    x
}

const RECV_TRANSITIONS: &str = "<transition event=\"e\"><script>mark('recv',_event.name,_event.data.v,_event.sendid)</script></transition>\
     <transition event=\"error\"><script>mark('err',_event.name,0)</script></transition>";

fn recorder_xml() -> String {
    format!(
        "<scxml xmlns=\"http://www.w3.org/2005/07/scxml\" version=\"1.0\" datamodel=\"rfsm-expression\" initial=\"s\">\
         <state id=\"s\">{}</state></scxml>",
        RECV_TRANSITIONS
    )
}

// ------------------------------------------------------------------------------------------------
// running a case on the real code
// ------------------------------------------------------------------------------------------------

#[derive(Clone, Debug, Default)]
pub struct Obs {
    /// (k, session role of the receiver: 0 = recorder, 1+s = sender s, µs, payload), in arrival order per receiver
    pub recvs: Vec<(usize, usize, i64, String)>,
    /// k -> (pre µs, post µs, x at pre)
    pub sends: BTreeMap<usize, (i64, Option<i64>, String)>,
    /// op index -> (pre, post)
    pub cancels: BTreeMap<usize, (i64, Option<i64>)>,
    pub assigns: BTreeMap<usize, (i64, Option<i64>)>,
    /// op index -> (pre, joined)
    pub terms: BTreeMap<usize, (i64, Option<i64>)>,
    /// error events seen per role
    pub errors: BTreeMap<usize, usize>,
    pub end_us: i64,
    /// planned start (µs after base) of the script
    pub t0_us: i64,
    pub problems: Vec<String>,
    /// largest lateness (µs) of an operation against the plan, of a delivery against its due bracket
    pub max_op_late: i64,
    pub max_recv_late: i64,
    /// largest wake-up lateness (µs) of the monitor thread while the case ran
    pub hb_stall: i64,
    /// which sender session threads ended with a panic
    pub panicked: Vec<bool>,
    /// senders whose `GlobalData.delayed_send` still held guards after their thread had ended
    /// (regression P19: the end of a session drops every guard, synchronously)
    pub guards_left: Vec<usize>,
    /// wall-clock stamps of the `pre` mark of send k and of the arrivals of event k
    pub wall_pre: BTreeMap<usize, std::time::SystemTime>,
    pub wall_recv: Vec<(usize, std::time::SystemTime)>,
    /// `_event.sendid` as the receiver sees it, per arrival
    pub recv_sendid: Vec<(usize, String)>,
}

fn start(xml: String, marks: &Marks, executor: &FsmExecutor) -> Result<ScxmlSession, String> {
    let mut fsm = match std::panic::catch_unwind(|| scxml_reader::parse_from_xml(xml)) {
        Ok(r) => r?,
        Err(_) => return Err("reader panicked".to_string()),
    };
    let (tracer, _log) = RecTracer::new(false);
    fsm.tracer = Box::new(tracer);
    let mut actions = ActionWrapper::new();
    actions.add_action("mark", Box::new(Mark { log: marks.clone() }));
    Ok(fsm::start_fsm_with_data_and_finish_mode(
        fsm,
        actions,
        Box::new(executor.clone()),
        &[],
        FinishMode::KEEP_CONFIGURATION,
    ))
}

fn sleep_until(t: Instant) {
    loop {
        let now = Instant::now();
        if now >= t {
            return;
        }
        let d = t - now;
        if d > Duration::from_micros(300) {
            std::thread::sleep(d - Duration::from_micros(200));
        } else {
            std::hint::spin_loop();
        }
    }
}

/// after the session thread has ended: is a guard of a delayed send still registered?  (white box; the
/// Stop latency of the dropped timer is too short to be seen from outside on a calm machine)
fn guards_left(s: &ScxmlSession) -> bool {
    match s.global_data.lock() {
        Ok(g) => !g.delayed_send.is_empty(),
        Err(_) => false, // poisoned by a panic of the session thread: reported as that
    }
}

fn join_with_timeout(s: &mut ScxmlSession, timeout: Duration) -> Result<bool, ()> {
    // Ok(panicked?) | Err(timeout)
    if let Some(h) = s.thread.take() {
        let start = Instant::now();
        while !h.is_finished() {
            if start.elapsed() > timeout {
                s.thread = Some(h);
                return Err(());
            }
            std::thread::sleep(Duration::from_micros(200));
        }
        Ok(h.join().is_err())
    } else {
        Ok(false)
    }
}

/// delays in ms per send (from the model), used for the lateness statistics only
pub fn run_case(case: &Case, delays: &BTreeMap<usize, i64>, expect_n: usize, hb: &Heartbeat) -> Obs {
    let mut obs = Obs::default();
    let marks: Marks = Arc::new(Mutex::new(Vec::new()));
    let executor = FsmExecutor::new_without_io_processor();
    let base = Instant::now();
    let us = |t: Instant| t.duration_since(base).as_micros() as i64;
    let mut recorder = match start(recorder_xml(), &marks, &executor) {
        Ok(s) => s,
        Err(e) => {
            obs.problems.push(format!("recorder: {}", e));
            return obs;
        }
    };
    let mut senders: Vec<ScxmlSession> = Vec::new();
    obs.panicked = vec![false; 2];
    for s in 0..case.senders {
        match start(sender_xml(case, s, recorder.session_id), &marks, &executor) {
            Ok(sess) => senders.push(sess),
            Err(e) => {
                obs.problems.push(format!("sender {}: {}", s, e));
                let _ = recorder.sender.send(Box::new(Event::new_simple(EVENT_CANCEL_SESSION)));
                for s in senders.iter_mut() {
                    let _ = s.sender.send(Box::new(Event::new_simple(EVENT_CANCEL_SESSION)));
                }
                return obs;
            }
        }
    }
    let mut role: BTreeMap<u32, usize> = BTreeMap::new();
    role.insert(recorder.session_id, 0);
    for (i, s) in senders.iter().enumerate() {
        role.insert(s.session_id, 1 + i);
    }
    // let the sessions reach their initial configuration
    let t0 = Instant::now() + Duration::from_millis(30);
    obs.t0_us = us(t0);
    let mut order: Vec<usize> = (0..case.ops.len()).collect();
    order.sort_by_key(|&i| case.ops[i].at);
    let mut joined: BTreeMap<usize, i64> = BTreeMap::new();
    for i in order {
        let o = &case.ops[i];
        sleep_until(t0 + Duration::from_millis(o.at));
        let _ = senders[o.sess].sender.send(Box::new(Event::new_simple(&format!("op.{}", i))));
        if let (OpKind::Term, Some("no-terminate")) = (&o.kind, case.sabotage.as_deref()) {
            // self-test: pretend the session thread has ended
            std::thread::sleep(Duration::from_millis(2));
            joined.insert(i, us(Instant::now()));
        } else if let OpKind::Term = o.kind {
            match join_with_timeout(&mut senders[o.sess], Duration::from_secs(2)) {
                Ok(p) => {
                    joined.insert(i, us(Instant::now()));
                    if p {
                        obs.panicked[o.sess] = true;
                    } else if guards_left(&senders[o.sess]) {
                        obs.guards_left.push(o.sess);
                    }
                }
                Err(()) => obs.problems.push(format!("sender {} did not terminate", o.sess)),
            }
        }
    }
    // wait: to the horizon (+ a little for strays); if something expected is missing, long enough to call it lost
    let count_recv = |m: &Marks| m.lock().unwrap_or_else(|e| e.into_inner()).iter().filter(|r| r.label == "recv").count();
    sleep_until(t0 + Duration::from_millis(case.horizon + 60));
    let long_end = t0 + Duration::from_millis(case.horizon + 2150);
    while count_recv(&marks) < expect_n && Instant::now() < long_end {
        std::thread::sleep(Duration::from_millis(5));
    }
    obs.end_us = us(Instant::now());
    obs.hb_stall = hb_stall_between(hb, base, Instant::now().min(t0 + Duration::from_millis(case.horizon + 100)));
    // shut down
    let _ = recorder.sender.send(Box::new(Event::new_simple(EVENT_CANCEL_SESSION)));
    for s in senders.iter_mut() {
        let _ = s.sender.send(Box::new(Event::new_simple(EVENT_CANCEL_SESSION)));
    }
    match join_with_timeout(&mut recorder, Duration::from_secs(3)) {
        Ok(true) => obs.problems.push("recorder panicked".to_string()),
        Err(()) => obs.problems.push("recorder did not stop".to_string()),
        _ => {}
    }
    for (i, s) in senders.iter_mut().enumerate() {
        match join_with_timeout(s, Duration::from_secs(3)) {
            Ok(true) => obs.panicked[i] = true,
            Err(()) => obs.problems.push(format!("sender {} did not stop", i)),
            Ok(false) => {
                if guards_left(s) && !obs.guards_left.contains(&i) {
                    obs.guards_left.push(i);
                }
            }
        }
    }
    // digest the marks
    let recs = marks.lock().unwrap_or_else(|e| e.into_inner()).clone();
    for r in &recs {
        let t = us(r.at);
        let who = *role.get(&r.sess).unwrap_or(&99);
        let num = r.a1.parse::<usize>().ok();
        match r.label.as_str() {
            "pre" => {
                if let Some(k) = num {
                    obs.sends.insert(k, (t, None, r.a2.clone()));
                    obs.wall_pre.insert(k, r.wall);
                }
            }
            "post" => {
                if let Some(e) = num.and_then(|k| obs.sends.get_mut(&k)) {
                    e.1 = Some(t);
                }
            }
            "cpre" => {
                if let Some(i) = num {
                    obs.cancels.insert(i, (t, None));
                }
            }
            "cpost" => {
                if let Some(e) = num.and_then(|i| obs.cancels.get_mut(&i)) {
                    e.1 = Some(t);
                }
            }
            "apre" => {
                if let Some(i) = num {
                    obs.assigns.insert(i, (t, None));
                }
            }
            "apost" => {
                if let Some(e) = num.and_then(|i| obs.assigns.get_mut(&i)) {
                    e.1 = Some(t);
                }
            }
            "tpre" => {
                if let Some(i) = num {
                    obs.terms.insert(i, (t, joined.get(&i).copied()));
                }
            }
            "recv" => {
                // event name e.<k>
                match r.a1.strip_prefix("e.").and_then(|x| x.parse::<usize>().ok()) {
                    Some(k) => {
                        obs.recvs.push((k, who, t, r.a2.clone()));
                        obs.recv_sendid.push((k, r.a3.clone()));
                        obs.wall_recv.push((k, r.wall));
                    }
                    None => obs.problems.push(format!("unexpected event {}", r.a1)),
                }
            }
            "err" => {
                *obs.errors.entry(who).or_insert(0) += 1;
            }
            other => obs.problems.push(format!("unexpected mark {}", other)),
        }
    }
    // lateness statistics
    for (i, o) in case.ops.iter().enumerate() {
        let planned = obs.t0_us + (o.at as i64) * 1000;
        let actual = match &o.kind {
            OpKind::Send(ss) => ss.first().and_then(|s| obs.sends.get(&s.k)).map(|e| e.0),
            OpKind::Cancel(_) => obs.cancels.get(&i).map(|e| e.0),
            OpKind::Assign(_) => obs.assigns.get(&i).map(|e| e.0),
            OpKind::Term => obs.terms.get(&i).map(|e| e.0),
        };
        if let Some(a) = actual {
            obs.max_op_late = obs.max_op_late.max(a - planned);
        }
        // the whole operation should be over quickly
        let done = match &o.kind {
            OpKind::Send(ss) => ss.last().and_then(|s| obs.sends.get(&s.k)).and_then(|e| e.1),
            OpKind::Cancel(_) => obs.cancels.get(&i).and_then(|e| e.1),
            OpKind::Assign(_) => obs.assigns.get(&i).and_then(|e| e.1),
            OpKind::Term => obs.terms.get(&i).and_then(|e| e.1),
        };
        if let Some(d) = done {
            obs.max_op_late = obs.max_op_late.max(d - planned);
        }
    }
    for (k, _who, t, _) in &obs.recvs {
        if let (Some(e), Some(d)) = (obs.sends.get(k), delays.get(k)) {
            if *d > 0 {
                let due_hi = e.1.unwrap_or(e.0) + d * 1000;
                obs.max_recv_late = obs.max_recv_late.max(t - due_hi);
            }
        }
    }
    obs
}

// ------------------------------------------------------------------------------------------------
// model side
// ------------------------------------------------------------------------------------------------

/// `parseDuration` of the model: (value, class)
fn model_dur(model: &mut Model, s: &str) -> (i64, String) {
    let r = model.ask(&format!("timer parsedur {}", hexs(s)));
    let mut it = r.split(' ');
    let v = it.next().and_then(|x| x.parse::<i128>().ok());
    let c = it.next().unwrap_or("?").to_string();
    match v {
        // the model is unbounded; i64 range is guaranteed by its clipping
        Some(v) => (v as i64, c),
        None => (i64::MIN + 7, format!("bad-reply:{}", r)),
    }
}

fn sess_letter(s: usize) -> char {
    if s == 0 {
        'a'
    } else {
        'b'
    }
}

/// the script for `timer run`, the delay (ms) the model assigns to every send, and the receiver role per send
fn model_script(case: &Case, model: &mut Model) -> (String, BTreeMap<usize, i64>) {
    let mut delays = BTreeMap::new();
    let mut items: Vec<(u64, u32, String)> = Vec::new(); // (time, order, text)
    for o in case.ops.iter() {
        let c = sess_letter(o.sess);
        match &o.kind {
            OpKind::Send(ss) => {
                for (j, s) in ss.iter().enumerate() {
                    let (d, _) = model_dur(model, &s.delay);
                    delays.insert(s.k, d);
                    if j > 0 && ss[..j].iter().any(|q| send_fails(*delays.get(&q.k).unwrap_or(&0))) {
                        // an element of a block of executable content that fails ends the block
                        // (`executeContent` stops at the first `false`): this send never executes
                        delays.insert(s.k, -2);
                        continue;
                    }
                    let id = s.id.as_ref().map(|x| hexs(x)).unwrap_or("-".to_string());
                    let tg = if s.to_self { "-".to_string() } else { hexs("R") };
                    let pl = if s.loc { "l".to_string() } else if s.var { "v".to_string() } else { format!("c{}", 1000 + s.k) };
                    items.push((o.at, 1 + j as u32, format!("{}S,{},{},{},{},{}", c, s.k, id, tg, d, pl)));
                }
            }
            OpKind::Cancel(id) => items.push((o.at, 1, format!("{}C,{}", c, hexs(id)))),
            OpKind::Assign(n) => items.push((o.at, 1, format!("{}A,{}", c, n))),
            // the end of the session thread cancels what is pending; when the timer's threads see the
            // Stop message does not matter any more (P19 repaired), so the script does not say
            OpKind::Term => items.push((o.at, 1, format!("{c}X"))),
        }
    }
    let mut t = 0;
    while t <= case.horizon {
        items.push((t, 0, format!("T,{}", t)));
        t += SLOT;
    }
    items.sort_by_key(|x| (x.0, x.1));
    let headroom = chrono::DateTime::<chrono::Utc>::MAX_UTC.signed_duration_since(chrono::Utc::now()).num_milliseconds();
    let script = format!("H,{};", headroom) + &items.into_iter().map(|x| x.2).collect::<Vec<_>>().join(";");
    (script, delays)
}

#[derive(Debug, Clone, PartialEq)]
pub struct ModelRun {
    /// (k, payload, session index) in delivery order
    pub deliveries: Vec<(usize, String, usize)>,
    pub errors: Vec<usize>,
    /// the session thread panics: the model never says so any more (`crash=0,0`); compared with the
    /// panic flag of every real sender thread
    pub crashed: Vec<bool>,
}

fn model_run(model: &mut Model, script: &str) -> Result<ModelRun, String> {
    let r = model.ask(&format!("timer run {}", script));
    let parts: Vec<&str> = r.split(' ').collect();
    if parts.len() != 4 {
        return Err(r);
    }
    let mut deliveries = Vec::new();
    if parts[0] != "." {
        for d in parts[0].split(',') {
            let f: Vec<&str> = d.split(':').collect();
            if f.len() != 6 {
                return Err(r.clone());
            }
            // payload and the send id the event carries: "<payload>#<id>" ("null" = none, as `_event.sendid` shows it)
            let id = match crate::proto::unhex(f[5]) {
                Some(b) if f[5] != "-" => String::from_utf8_lossy(&b).to_string(),
                _ => "null".to_string(),
            };
            deliveries.push((f[0].parse().map_err(|_| r.clone())?, format!("{}#{}", f[1], id), f[4].parse().map_err(|_| r.clone())?));
        }
    }
    let errors = parts[2]
        .strip_prefix("err=")
        .ok_or(r.clone())?
        .split(',')
        .map(|x| x.parse::<usize>().unwrap_or(9999))
        .collect();
    let crashed = parts[3].strip_prefix("crash=").ok_or(r.clone())?.split(',').map(|x| x == "1").collect();
    Ok(ModelRun { deliveries, errors, crashed })
}

fn oracle_request(case: &Case, obs: &Obs, delays: &BTreeMap<usize, i64>) -> String {
    let join = |v: Vec<String>| if v.is_empty() { ".".to_string() } else { v.join(";") };
    let mut sends = Vec::new();
    for (sess, _at, s) in case.sends() {
        if let Some((pre, post, val)) = obs.sends.get(&s.k) {
            let d = *delays.get(&s.k).unwrap_or(&0);
            if send_fails(d) {
                continue; // aborted sends are judged by the error count
            }
            let post = post.unwrap_or(obs.end_us);
            let expected_val = if s.var || s.loc { val.clone() } else { format!("{}", 1000 + s.k) };
            sends.push(format!(
                "{},{},{},{},{},{},{},{}",
                s.k,
                sess,
                s.id.as_ref().map(|x| hexs(x)).unwrap_or("-".to_string()),
                d,
                pre,
                post,
                expected_val,
                if s.to_self { 1 + sess } else { 0 }
            ));
        }
    }
    let mut cancels = Vec::new();
    let mut terms = Vec::new();
    for (i, o) in case.ops.iter().enumerate() {
        match &o.kind {
            OpKind::Cancel(id) => {
                if let Some((pre, post)) = obs.cancels.get(&i) {
                    cancels.push(format!("{},{},{},{}", o.sess, hexs(id), pre, post.unwrap_or(obs.end_us)));
                }
            }
            OpKind::Term => {
                if let Some((pre, j)) = obs.terms.get(&i) {
                    terms.push(format!("{},{},{}", o.sess, pre, j.unwrap_or(obs.end_us)));
                }
            }
            _ => {}
        }
    }
    let recvs: Vec<String> = obs.recvs.iter().map(|(k, who, t, v)| format!("{},{},{},{}", k, who, t, if v.is_empty() { "_" } else { v })).collect();
    format!("timer oracle {} {} {} {} {} {}", join(sends), join(cancels), join(terms), join(recvs), obs.end_us, 2_000_000)
}

fn signature_of(fail: &str) -> String {
    let kind = fail.split(':').next().unwrap_or("?");
    match kind {
        "lost-dup" => "C16:lost:duplicate-sendid".to_string(),
        "lost" => "C16:lost".to_string(),
        "early" => "C16:early".to_string(),
        "dup" => "C16:delivered-twice".to_string(),
        "value" => "C16:late-value".to_string(),
        "target" => "C16:wrong-target".to_string(),
        "cancelled-delivered" => "C16:cancelled-delivered".to_string(),
        "terminated-delivered" => "C16:terminated-delivered".to_string(),
        "order" => "C16:order".to_string(),
        other => format!("C16:{}", other),
    }
}

// ------------------------------------------------------------------------------------------------
// generator
// ------------------------------------------------------------------------------------------------

/// equivalent spellings of a delay of `ms` milliseconds (ms is a multiple of 10)
fn spellings(ms: u64) -> Vec<String> {
    let mut v = vec![
        format!("{}ms", ms),
        format!("{}MS", ms),
        format!("{}.0ms", ms),
        format!("0{}ms", ms),
        format!(" {}ms", ms),
        format!("{} ms", ms),
        format!("{}ms ", ms),
        format!("{}e1ms", ms / 10),
        format!("{}.{:03}s", ms / 1000, ms % 1000),
        format!("{}.{:03}S", ms / 1000, ms % 1000),
        format!("{}.{:03}000s", ms / 1000, ms % 1000),
    ];
    if ms < 1000 {
        v.push(format!(".{:03}s", ms));
        let t = format!("{:03}", ms);
        v.push(format!("0.{}s", t.trim_end_matches('0')));
    }
    if ms % 60 == 0 {
        v.push(format!("0.{:03}m", ms / 60));
    }
    v
}

const IDS: &[&str] = &["A", "B", "C", "a.b", "é"];

pub fn gen_case(p: &mut Prng) -> Case {
    let senders = if p.chance(3, 10) { 2 } else { 1 };
    let n_ops = p.range(2, 5) as usize;
    let mut ops: Vec<Op> = Vec::new();
    let mut used_due: Vec<u64> = Vec::new();
    let mut k = 0usize;
    let mut alive = vec![true; senders];
    // pending (id, due) per sender as planned, to steer the id choice
    let mut pending: Vec<Vec<(Option<String>, u64)>> = vec![Vec::new(); senders];
    let allow_dup = p.chance(1, 10);
    let mut horizon = 0u64;
    for slot in 0..n_ops {
        let at = (slot as u64) * 2 * SLOT;
        let live: Vec<usize> = (0..senders).filter(|s| alive[*s]).collect();
        if live.is_empty() {
            break;
        }
        let sess = *p.pick(&live);
        pending[sess].retain(|(_, due)| *due > at);
        let roll = p.below(100);
        let has_pending = !pending[sess].is_empty();
        let kind = if slot == 0 || roll < 45 || (!has_pending && roll < 70) {
            // a block of sends
            let n = if p.chance(1, 3) { p.range(2, 3) } else { 1 } as usize;
            let mut ss = Vec::new();
            let mut block_delay: Option<u64> = None;
            for _ in 0..n {
                let special = p.below(100);
                if special < 6 {
                    // not carried out, or not delayed
                    let delay = p.pick(&["-1s", "1Sx", "abc", "-40ms", "+40ms", ".s", "1e", "4 0ms"]).to_string();
                    let expr = true;
                    ss.push(SendSpec { k, id: Some(p.pick(IDS).to_string()), delay, expr, to_self: false, var: true, loc: false });
                    k += 1;
                    continue;
                }
                if special < 16 && special >= 14 {
                    // far in the future (never fires here) or beyond chrono's date range (error.execution, the block ends)
                    let delay = p.pick(&["8e15ms", "92000000d", "9223372036854775807ms", "1e17ms", "99999999999d", "8.4e15ms", "2333333333333h"]).to_string();
                    ss.push(SendSpec { k, id: if p.chance(1, 2) { Some("A".to_string()) } else { None }, delay, expr: true, to_self: false, var: true, loc: false });
                    k += 1;
                    continue;
                }
                if special < 14 {
                    let delay = p.pick(&["0s", "0ms", "", "5", "40", "0.4ms", "-0.4ms", "1.5.5s", "40 40ms", "40true"]).to_string();
                    let expr = !delay.is_empty() && p.chance(1, 2);
                    ss.push(SendSpec { k, id: None, delay, expr, to_self: p.chance(1, 4), var: p.chance(3, 4), loc: false });
                    k += 1;
                    continue;
                }
                // a free due slot (odd multiple of SLOT) after `at`, at most 400 ms ahead;
                // or, rarely, the same delay as the previous send of this block (same due time, order by send)
                let d = if block_delay.is_some() && p.chance(1, 6) {
                    block_delay.unwrap()
                } else {
                    let mut cands: Vec<u64> = (0..5).map(|j| (2 * j + 1) * SLOT).filter(|d| !used_due.contains(&(at + d))).collect();
                    if cands.is_empty() {
                        cands.push(9 * SLOT + 2 * SLOT * (used_due.len() as u64));
                    }
                    *p.pick(&cands)
                };
                block_delay = Some(d);
                used_due.push(at + d);
                horizon = horizon.max(at + d);
                let id = if p.chance(1, 4) {
                    None
                } else {
                    let taken: Vec<&Option<String>> = pending[sess].iter().map(|x| &x.0).collect();
                    let free: Vec<&&str> = IDS.iter().filter(|i| !taken.contains(&&Some(i.to_string()))).collect();
                    if allow_dup && !taken.is_empty() && p.chance(1, 2) {
                        (*p.pick(&taken)).clone()
                    } else if free.is_empty() {
                        None
                    } else {
                        Some(p.pick(&free).to_string())
                    }
                };
                let sp = spellings(d);
                let delay = p.pick(&sp).clone();
                pending[sess].push((id.clone(), at + d));
                ss.push(SendSpec { k, id, delay, expr: p.chance(1, 3), to_self: p.chance(1, 5), var: p.chance(3, 4), loc: p.chance(1, 7) });
                k += 1;
            }
            OpKind::Send(ss)
        } else if roll < 70 {
            // cancel: mostly an id that is pending here, sometimes another one (pending in the other session, or nowhere)
            let id = if has_pending && p.chance(3, 4) {
                let with_id: Vec<&(Option<String>, u64)> = pending[sess].iter().filter(|x| x.0.is_some()).collect();
                if with_id.is_empty() {
                    p.pick(IDS).to_string()
                } else {
                    p.pick(&with_id).0.clone().unwrap()
                }
            } else {
                p.pick(IDS).to_string()
            };
            pending[sess].retain(|x| x.0.as_deref() != Some(id.as_str()));
            OpKind::Cancel(id)
        } else if roll < 90 {
            OpKind::Assign(p.range(1, 99))
        } else {
            alive[sess] = false;
            OpKind::Term
        };
        ops.push(Op { sess, at, kind });
    }
    let last_op = ops.last().map(|o| o.at).unwrap_or(0);
    Case { senders, ops, horizon: horizon.max(last_op) + SLOT, sabotage: None }
}

fn mk_send(k: usize, id: Option<&str>, delay: &str) -> SendSpec {
    SendSpec { k, id: id.map(|x| x.to_string()), delay: delay.to_string(), expr: false, to_self: false, var: true, loc: false }
}

pub fn corpus() -> Vec<(&'static str, Case)> {
    let op = |sess, at, kind| Op { sess, at, kind };
    vec![
        // regression P15 (repaired): same send id twice while the first is pending: both are delivered
        (
            "P15 duplicate send id",
            Case {
                senders: 1,
                ops: vec![
                    op(0, 0, OpKind::Send(vec![mk_send(0, Some("X"), "120ms")])),
                    op(0, 80, OpKind::Send(vec![mk_send(1, Some("X"), "200ms")])),
                ],
                horizon: 320,
                sabotage: None,
            },
        ),
        // the id is free again after delivery
        (
            "id reused after delivery",
            Case {
                senders: 1,
                ops: vec![
                    op(0, 0, OpKind::Send(vec![mk_send(0, Some("X"), "40ms")])),
                    op(0, 80, OpKind::Send(vec![mk_send(1, Some("X"), "40ms")])),
                ],
                horizon: 160,
                sabotage: None,
            },
        ),
        // due order differs from send order; data changes after the send
        (
            "due order and value at send time",
            Case {
                senders: 1,
                ops: vec![
                    op(0, 0, OpKind::Assign(5)),
                    op(0, 80, OpKind::Send(vec![mk_send(0, Some("A"), "0.28s"), mk_send(1, Some("B"), "120ms"), mk_send(2, None, ".2s")])),
                    op(0, 160, OpKind::Assign(9)),
                ],
                horizon: 400,
                sabotage: None,
            },
        ),
        // cancel before due, cancel after due, cancel of an unrelated id
        (
            "cancel before / after due",
            Case {
                senders: 1,
                ops: vec![
                    op(0, 0, OpKind::Send(vec![mk_send(0, Some("A"), "120ms"), mk_send(1, Some("B"), "40ms"), mk_send(2, Some("C"), "200ms")])),
                    op(0, 80, OpKind::Cancel("A".to_string())),
                    op(0, 160, OpKind::Cancel("B".to_string())),
                    op(0, 240, OpKind::Cancel("Z".to_string())),
                ],
                horizon: 320,
                sabotage: None,
            },
        ),
        // two sessions with the same id: cancel in one leaves the other alone
        (
            "cancel does not cross sessions",
            Case {
                senders: 2,
                ops: vec![
                    op(0, 0, OpKind::Send(vec![mk_send(0, Some("A"), "200ms")])),
                    op(1, 80, OpKind::Send(vec![mk_send(1, Some("A"), "200ms")])),
                    op(0, 160, OpKind::Cancel("A".to_string())),
                ],
                horizon: 360,
                sabotage: None,
            },
        ),
        // termination discards what is pending, also what has no id (regression P19: at once, by dropping the guards)
        (
            "termination discards",
            Case {
                senders: 2,
                ops: vec![
                    op(0, 0, OpKind::Send(vec![mk_send(0, Some("A"), "120ms"), mk_send(1, None, "200ms"), mk_send(2, None, "40ms")])),
                    op(1, 80, OpKind::Send(vec![mk_send(3, None, "200ms")])),
                    op(0, 160, OpKind::Term), // wait: 0 is due at 120 (delivered), 1 at 200 (discarded)
                ],
                horizon: 360,
                sabotage: None,
            },
        ),
        // same delay twice in one block: same due time, order of sending
        (
            "same delay twice",
            Case {
                senders: 1,
                ops: vec![op(0, 0, OpKind::Send(vec![mk_send(0, None, "120ms"), mk_send(1, Some("A"), "0.12s"), mk_send(2, None, "40ms")]))],
                horizon: 200,
                sabotage: None,
            },
        ),
        // regression P18 (repaired): an array handed over by location is copied, a later assign does not reach it
        (
            "shared container",
            Case {
                senders: 1,
                ops: vec![
                    op(0, 0, OpKind::Assign(1)),
                    op(
                        0,
                        80,
                        OpKind::Send(vec![
                            SendSpec { k: 0, id: None, delay: "200ms".into(), expr: false, to_self: false, var: true, loc: true },
                            SendSpec { k: 1, id: None, delay: "120ms".into(), expr: false, to_self: false, var: true, loc: false },
                        ]),
                    ),
                    op(0, 160, OpKind::Assign(99)),
                ],
                horizon: 320,
                sabotage: None,
            },
        ),
        // regression C12-huge-delay (repaired): a delay beyond chrono's date range is error.execution and ends
        // its block (send 5 is not executed); the session goes on: what was pending and what is sent later arrives
        (
            "delay beyond the calendar",
            Case {
                senders: 2,
                ops: vec![
                    op(0, 0, OpKind::Send(vec![mk_send(0, Some("A"), "200ms"), mk_send(1, None, "40ms")])),
                    op(1, 80, OpKind::Send(vec![mk_send(2, Some("A"), "200ms")])),
                    op(
                        0,
                        160,
                        OpKind::Send(vec![
                            SendSpec { k: 3, id: None, delay: "8e15ms".into(), expr: true, to_self: false, var: true, loc: false },
                            SendSpec { k: 4, id: None, delay: "9223372036854775807ms".into(), expr: true, to_self: false, var: true, loc: false },
                            SendSpec { k: 5, id: None, delay: "0s".into(), expr: false, to_self: false, var: true, loc: false },
                        ]),
                    ),
                    // due at 320: not at 280, where send 2 of the other session falls due (two sends of different
                    // sessions with one due time arrive in either order; the tie made this case flaky under load)
                    op(0, 240, OpKind::Send(vec![mk_send(6, None, "80ms")])),
                ],
                horizon: 360,
                sabotage: None,
            },
        ),
        // not carried out / not delayed
        (
            "invalid and zero delays",
            Case {
                senders: 1,
                ops: vec![
                    op(
                        0,
                        0,
                        OpKind::Send(vec![
                            SendSpec { k: 0, id: Some("A".into()), delay: "-1s".into(), expr: true, to_self: false, var: true, loc: false },
                            SendSpec { k: 1, id: Some("B".into()), delay: "1Sx".into(), expr: true, to_self: false, var: true, loc: false },
                            SendSpec { k: 2, id: None, delay: "5".into(), expr: true, to_self: false, var: true, loc: false },
                            SendSpec { k: 3, id: None, delay: "".into(), expr: false, to_self: false, var: false, loc: false },
                            SendSpec { k: 4, id: None, delay: "120 ms".into(), expr: true, to_self: true, var: false, loc: false },
                        ]),
                    ),
                    op(0, 80, OpKind::Assign(3)),
                ],
                horizon: 200,
                sabotage: None,
            },
        ),
    ]
}

// ------------------------------------------------------------------------------------------------
// checking one timing case
// ------------------------------------------------------------------------------------------------

struct Prepared {
    origin: String,
    case: Case,
    script: String,
    delays: BTreeMap<usize, i64>,
    predicted: Result<ModelRun, String>,
}

struct Outcome {
    obs: Obs,
    attempts: u32,
    stalled: bool,
}

fn stalled(o: &Obs) -> bool {
    o.max_op_late > STALL_US || o.max_recv_late > STALL_US || o.hb_stall > HB_STALL_US
}

/// a delay beyond chrono's date range (the measured headroom is about 8.21e15 ms; the generated delays
/// keep 2-3 % away from it on either side): `Fsm::schedule` refuses it, `<send>` fails with error.execution
const BEYOND_MS: i64 = 8_300_000_000_000_000;

/// is a `<send>` with this delay (as the model's `parseDuration` gives it) not carried out?  negative =
/// invalid or negative duration, `BEYOND_MS` and more = not a date; either way error.execution, and the
/// rest of its block of executable content is not executed
fn send_fails(d: i64) -> bool {
    d < 0 || d >= BEYOND_MS
}

/// how many deliveries the *property* expects from the plan (ignoring what the model says about
/// overwritten send ids): sends that are carried out, not cancelled and not cut off by termination
fn property_expected(p: &Prepared) -> usize {
    let case = &p.case;
    let mut n = 0;
    for o in case.ops.iter() {
        let OpKind::Send(ss) = &o.kind else { continue };
        for s in ss.iter() {
            let d = *p.delays.get(&s.k).unwrap_or(&-1);
            if d < 0 || d > 1_000_000 {
                continue;
            }
            let due = o.at + d as u64;
            let cut = case.ops.iter().any(|q| {
                q.sess == o.sess
                    && q.at > o.at
                    && q.at < due
                    && match &q.kind {
                        OpKind::Cancel(id) => s.id.as_deref() == Some(id.as_str()),
                        OpKind::Term => true,
                        _ => false,
                    }
            });
            if !cut {
                n += 1;
            }
        }
    }
    n
}

fn run_with_retries(p: &Prepared, hb: &Heartbeat) -> Outcome {
    let expect_n = p.predicted.as_ref().map(|m| m.deliveries.len()).unwrap_or(0).max(property_expected(p));
    let max_attempts = if p.origin.starts_with("corpus") || p.origin == "replay" { 8 } else { 4 };
    let mut attempts = 0;
    loop {
        attempts += 1;
        let obs = run_case(&p.case, &p.delays, expect_n, hb);
        let st = stalled(&obs);
        // an observation that agrees with the model is an agreement however bumpy the run was;
        // one that differs counts only if the run was calm (else: again, at most `max_attempts` times)
        let agrees = matches_model(p, &obs);
        if agrees || !st || attempts >= max_attempts {
            return Outcome { obs, attempts, stalled: st };
        }
    }
}

type Seqs = BTreeMap<usize, Vec<(usize, String)>>;

/// arrival sequences per receiver and error counts per sender: (model, implementation)
fn sequences(p: &Prepared, predicted: &ModelRun, obs: &Obs) -> ((Seqs, Vec<usize>), (Seqs, Vec<usize>)) {
    let recv_of = receiver_of(&p.case);
    let mut model_seq: Seqs = BTreeMap::new();
    for (k, v, _sess) in &predicted.deliveries {
        model_seq.entry(*recv_of.get(k).unwrap_or(&99)).or_default().push((*k, v.clone()));
    }
    let mut impl_seq: Seqs = BTreeMap::new();
    for (i, (k, who, _t, v)) in obs.recvs.iter().enumerate() {
        let id = obs.recv_sendid.get(i).map(|x| x.1.clone()).unwrap_or_default();
        impl_seq.entry(*who).or_default().push((*k, format!("{}#{}", v, id)));
    }
    let mut impl_err = vec![0usize; 2];
    for (who, n) in &obs.errors {
        if *who >= 1 && *who <= 2 {
            impl_err[*who - 1] = *n;
        } else {
            impl_err.push(*n);
        }
    }
    // the panic flags ride along with the error counts (1000 = panicked)
    let mut model_err = predicted.errors.clone();
    for (i, c) in predicted.crashed.iter().enumerate() {
        if *c && i < model_err.len() {
            model_err[i] += 1000;
        }
    }
    for (i, c) in obs.panicked.iter().enumerate() {
        if *c && i < impl_err.len() {
            impl_err[i] += 1000;
        }
    }
    ((model_seq, model_err), (impl_seq, impl_err))
}

fn matches_model(p: &Prepared, obs: &Obs) -> bool {
    match &p.predicted {
        Ok(m) => {
            let (a, b) = sequences(p, m, obs);
            a == b && obs.problems.is_empty()
        }
        Err(_) => true, // nothing to wait for
    }
}

fn receiver_of(case: &Case) -> BTreeMap<usize, usize> {
    case.sends().into_iter().map(|(sess, _, s)| (s.k, if s.to_self { 1 + sess } else { 0 })).collect()
}

fn judge(p: &Prepared, out: &Outcome, model: &mut Model, rep: &mut Report) {
    rep.evaluations += 1;
    let case = &p.case;
    let cj = case.to_json();
    rep.nontrivial.insert(p.script.clone());
    // statistics
    rep.count(&format!("senders_{}", case.senders));
    rep.count(&format!("attempts_{}", out.attempts));
    for o in &case.ops {
        match &o.kind {
            OpKind::Send(ss) => {
                rep.count(&format!("sends_in_block_{}", ss.len()));
                for s in ss {
                    rep.count(if s.id.is_some() { "send_with_id" } else { "send_without_id" });
                    rep.count(if s.expr { "send_delayexpr" } else { "send_delay_attr" });
                    rep.count(if s.to_self { "send_to_self" } else { "send_to_recorder" });
                    rep.count(if s.loc { "payload_array_by_location" } else if s.var { "payload_variable" } else { "payload_constant" });
                    let d = *p.delays.get(&s.k).unwrap_or(&0);
                    rep.count(if d < 0 { "delay_negative_or_invalid" } else if d == 0 { "delay_zero" } else if d >= BEYOND_MS { "delay_beyond_calendar" } else if d > 1_000_000 { "delay_far_future" } else { "delay_positive" });
                }
            }
            OpKind::Cancel(_) => rep.count("op_cancel"),
            OpKind::Assign(_) => rep.count("op_assign"),
            OpKind::Term => rep.count("op_terminate"),
        }
    }
    rep.add("max_op_late_us_sum", out.obs.max_op_late.max(0) as u64);
    rep.add("max_recv_late_us_sum", out.obs.max_recv_late.max(0) as u64);
    rep.add("hb_stall_us_sum", out.obs.hb_stall.max(0) as u64);
    let worst = rep.extra.get("worst_recv_late_us").and_then(|v| v.as_i64()).unwrap_or(0).max(out.obs.max_recv_late);
    rep.extra.insert("worst_recv_late_us".to_string(), json!(worst));
    if !out.obs.problems.is_empty() {
        rep.disagree(json!({"origin": p.origin, "case": cj, "impl_problems": out.obs.problems}));
        rep.oracle_fail("C16:impl-problem", json!({"origin": p.origin, "case": cj, "problems": out.obs.problems}));
        return;
    }
    let predicted = match &p.predicted {
        Ok(m) => m,
        Err(e) => {
            rep.disagree(json!({"origin": p.origin, "case": cj, "model_error": e}));
            return;
        }
    };
    if !out.obs.guards_left.is_empty() && case.sabotage.is_none() {
        // (d), white box: the session thread has ended and delayed sends of it are still armed
        rep.oracle_fail("C16:terminated-delivered:guards-left-at-exit", json!({"origin": p.origin, "case": cj, "senders": out.obs.guards_left}));
    }
    rep.add("deliveries_predicted", predicted.deliveries.len() as u64);
    rep.add("deliveries_observed", out.obs.recvs.len() as u64);
    // --- the property's predicate on the observed run
    let req = oracle_request(case, &out.obs, &p.delays);
    let verdict = model.ask(&req);
    if verdict == "bad-op" {
        rep.disagree(json!({"origin": p.origin, "case": cj, "oracle_request_rejected": req}));
    } else if verdict != "ok" {
        let mut seen = std::collections::BTreeSet::new();
        for f in verdict.split('|') {
            let mut sig = signature_of(f);
            if sig == "C16:late-value" {
                // which send?  a container handed over by location: the sharing defect P18 (repaired) is back
                let k = f.split(':').nth(1).and_then(|x| x.parse::<usize>().ok());
                if case.sends().iter().any(|(_, _, s)| Some(s.k) == k && s.loc) {
                    sig = "C16:late-value:shared-container".to_string();
                }
            }
            // an order verdict rests on the promptness of the timer crate's own threads and is only taken
            // from a calm run.  `terminated-delivered` counts from any run: the end of the session
            // cancels synchronously (P19 repaired), no stall can excuse a delivery after the join
            if sig == "C16:early" {
                // `timer` schedules by the wall clock, the stamps are monotonic: was it early by its own clock too?
                let k = f.split(':').nth(1).and_then(|x| x.parse::<usize>().ok()).unwrap_or(usize::MAX);
                let d = *p.delays.get(&k).unwrap_or(&0);
                let early_on_wall_clock = out.obs.wall_recv.iter().filter(|(kk, _)| *kk == k).any(|(_, w)| match out.obs.wall_pre.get(&k) {
                    Some(pre) => w.duration_since(*pre).map(|e| (e.as_micros() as i64) < d * 1000).unwrap_or(true),
                    None => true,
                });
                if !early_on_wall_clock {
                    rep.count("early_only_on_the_monotonic_clock_wall_clock_stepped");
                    continue;
                }
            }
            if out.stalled {
                if sig == "C16:order" {
                    rep.count("stalled_order_verdict_ignored");
                    continue;
                }
            }
            if seen.insert(sig.clone()) {
                rep.oracle_fail(&sig, json!({"origin": p.origin, "case": cj, "failure": f, "all": verdict, "stalled": out.stalled,
                    "max_op_late_us": out.obs.max_op_late, "max_recv_late_us": out.obs.max_recv_late, "hb_stall_us": out.obs.hb_stall,
                    "recvs": out.obs.recvs.iter().map(|r| json!([r.0, r.1, r.2, r.3])).collect::<Vec<_>>() }));
            }
        }
    }
    // --- model vs implementation: arrival sequences per receiver, error counts
    let ((model_seq, model_err), (impl_seq, impl_err)) = sequences(p, predicted, &out.obs);
    if model_seq != impl_seq || model_err != impl_err {
        if out.stalled {
            rep.count("stalled_after_retries_difference_not_counted");
            if out.obs.max_op_late > STALL_US {
                rep.count("stall_cause_operation_late");
            }
            if out.obs.max_recv_late > STALL_US {
                rep.count("stall_cause_delivery_late");
            }
            if out.obs.hb_stall > HB_STALL_US {
                rep.count("stall_cause_monitor_thread_late");
            }
            rep.extra.insert(
                "last_stalled_difference".to_string(),
                json!({"case": cj, "model": format!("{:?}", model_seq), "impl": format!("{:?}", impl_seq),
                    "max_op_late_us": out.obs.max_op_late, "max_recv_late_us": out.obs.max_recv_late, "hb_stall_us": out.obs.hb_stall}),
            );
        } else {
            rep.disagree(json!({"origin": p.origin, "case": cj, "script": p.script,
                "model": {"per_receiver": format!("{:?}", model_seq), "errors": model_err},
                "impl": {"per_receiver": format!("{:?}", impl_seq), "errors": impl_err},
                "max_op_late_us": out.obs.max_op_late, "max_recv_late_us": out.obs.max_recv_late, "hb_stall_us": out.obs.hb_stall}));
        }
    } else {
        rep.count(if out.stalled { "agreement_in_a_bumpy_run" } else { "agreement_in_a_calm_run" });
    }
    rep.sample(json!({"case": cj, "script": p.script, "observed": format!("{:?}", impl_seq), "attempts": out.attempts}));
}

fn prepare(origin: String, case: Case, model: &mut Model) -> Prepared {
    let (script, delays) = model_script(&case, model);
    let predicted = model_run(model, &script);
    Prepared { origin, case, script, delays, predicted }
}

fn run_timing(cases: Vec<Prepared>, workers: usize, model: &mut Model, rep: &mut Report) {
    let n_cases = cases.len();
    let cases = Arc::new(cases);
    let next = Arc::new(AtomicUsize::new(0));
    let results: Arc<Mutex<Vec<Option<Outcome>>>> = Arc::new(Mutex::new((0..cases.len()).map(|_| None).collect()));
    let stop = Arc::new(std::sync::atomic::AtomicBool::new(false));
    let (hb, hb_thread) = start_heartbeat(stop.clone());
    let mut hs = Vec::new();
    for _ in 0..workers.max(1) {
        let cases = cases.clone();
        let next = next.clone();
        let results = results.clone();
        let hb = hb.clone();
        hs.push(std::thread::spawn(move || loop {
            let i = next.fetch_add(1, Ordering::SeqCst);
            if i >= cases.len() {
                break;
            }
            let out = run_with_retries(&cases[i], &hb);
            results.lock().unwrap()[i] = Some(out);
        }));
    }
    for h in hs {
        let _ = h.join();
    }
    stop.store(true, Ordering::Relaxed);
    let _ = hb_thread.join();
    let mut results = results.lock().unwrap();
    let mut inconclusive = 0usize;
    for (i, p) in cases.iter().enumerate() {
        match results[i].take() {
            Some(out) => {
                if out.stalled && !matches_model(p, &out.obs) {
                    inconclusive += 1;
                }
                judge(p, &out, model, rep)
            }
            None => rep.disagree(json!({"origin": p.origin, "worker": "died"})),
        }
    }
    rep.extra.insert("timing_cases".to_string(), json!(n_cases));
    rep.extra.insert("timing_cases_undecided_because_stalled".to_string(), json!(inconclusive));
    if n_cases >= 20 && inconclusive * 2 > n_cases {
        // the tie would be too weak to mean anything: say so instead of passing quietly
        rep.disagree(json!({"environment": "more than half of the timing cases were still stalled after their retries; \
            their arrival sequences were not compared with the model", "stalled": inconclusive, "cases": n_cases}));
    }
}

// ------------------------------------------------------------------------------------------------
// Part A: duration strings
// ------------------------------------------------------------------------------------------------

pub fn duration_corpus() -> Vec<String> {
    let mut v: Vec<String> = [
        "", "6.7s", "0.5d", "1m", "0.001s", "6.7S", "0.5D", "1M", "0.001S", "x1S", "1Sx", ".5s", "5", "1e3s", "1.5.5s", " 1s", "1 s",
        "1s ", "\t1s", "1\ts", "\n1s", "-1s", "+1s", "1.s", "s", "ms", ".", ".s", "..", "-", "-s", "--1s", "-.5s", "-.s", "+.5s", "1ms", "1MS",
        "1mS", "1Ms", "1h", "1H", "1d", "1D", "1w", "1sec", "1ss", "1min", "0s", "0ms", "00s", "007s", "0.0s", "0.4ms", "0.5ms", "0.6ms",
        "1.5ms", "2.5ms", "-0.4ms", "-0.5ms", "-0.6ms", "0.49ms", "0.51ms", "1e0s", "1E3s", "1e+3s", "1e-3s", "1e-4s", "1es", "1e+s",
        "1e-s", "1e3", "1.e3s", "1.5e3s", ".5e1s", ".e3s", "e3s", "1e3e3s", "1e3.5s", "1true", "1truex", "1false", "1null", "1nulls",
        "true", "1s+5", "1s.5", "1s;x", "1s s", "1 2s", "1's'", "1\"s\"", "1(s)", "1\u{0}s", "1s\u{0}", "\u{0}1s", "1é", "1sé", "é1s", "1 és",
        "١s", "1٫5s", "9223372036854775807ms", "9223372036854775808ms", "9223372036854775806ms", "-9223372036854775808ms",
        "-9223372036854775809ms", "9223372036854775807s", "9223372036854775.807s", "9007199254740992ms", "9007199254740993ms",
        "99999999999999999999ms", "99999999999999999999.0ms", "0.00000000000000000001d", "1e19ms", "1e18ms", "1e300s", "1e-300s",
        "106751991167d", "106751991168d", "0.000001s", "0.0000001s", "0.0005s", "0.0015s", "1.0005s", "2.675s", "1.005s", "0.1s", "0.2s",
        "0.3s", "0.7m", "0.1h", "0.1d", "1.1h", "1/2s", "1:s", "1,5s", "1_s", "1 ", " ", "  1  s  ", "\r\n1s", "1.0.0s", "1..s", "1.-s", "1-s",
        "1+s", "1-1s", "1e5e", "1ee5s", "1e--5s", "1e+-5s", "-e5s", "-1e5", "0x10s", "1e1.5s", "12345678901234567890.5s", "0.12s", "120ms",
        "120 ms", "1.2e2ms",
    ]
    .iter()
    .map(|s| s.to_string())
    .collect();
    // every unit with a few numbers
    for u in ["ms", "s", "m", "h", "d", "MS", "S", "M", "H", "D", "Ms", "mS", "sm", "", "x", "e", "E", "es", "em", "ds"] {
        for n in ["0", "1", "10", "1.5", ".25", "0.125", "12.", "3e2", "999999", "0.999999"] {
            v.push(format!("{}{}", n, u));
        }
    }
    v
}

fn pk<'a>(p: &mut Prng, xs: &'a [&'a str]) -> &'a str {
    xs[p.below(xs.len() as u64) as usize]
}

fn gen_duration(p: &mut Prng) -> String {
    const DIG: &[&str] = &[
        "", "0", "1", "5", "9", "10", "40", "120", "999", "1000", "86400", "123456", "4294967296", "9007199254740992", "9007199254740993",
        "9223372036854775807", "9223372036854775808", "18446744073709551616", "000", "0012",
    ];
    const FRAC: &[&str] = &["", "", "", ".", ".0", ".5", ".25", ".125", ".1", ".49", ".51", ".001", ".0005", ".999999", ".000001", ".0000001", ".5.5", ".."];
    const EXP: &[&str] = &["", "", "", "", "e0", "e1", "E2", "e+3", "e-3", "e", "e+", "E-", "e1.5", "e10", "e-10", "ee1"];
    const UNIT: &[&str] = &["ms", "s", "m", "h", "d", "MS", "S", "M", "H", "D", "", "mS", "Ms", "sec", "x", "ss", "true", "null", "é", "s1"];
    const PRE: &[&str] = &["", "", "", "", "", " ", "  ", "\t", "-", "+", "--", "x", ".", "\u{0}", "'", "("];
    const MID: &[&str] = &["", "", "", "", "", "", " ", "\t", ".", "-", "+", ";", "\u{0}", "'", "e"];
    const POST: &[&str] = &["", "", "", "", "", "", " ", "x", " s", ";", ".5", "+1", "\u{0}", "'", "("];
    let mut s = String::new();
    s.push_str(pk(p, PRE));
    if p.chance(1, 8) {
        // a random digit string
        let n = p.range(1, 22);
        for _ in 0..n {
            s.push((b'0' + p.below(10) as u8) as char);
        }
    } else {
        s.push_str(pk(p, DIG));
    }
    s.push_str(pk(p, FRAC));
    s.push_str(pk(p, EXP));
    s.push_str(pk(p, MID));
    s.push_str(pk(p, UNIT));
    s.push_str(pk(p, POST));
    s
}

fn check_duration(s: &str, origin: &str, model: &mut Model, rep: &mut Report) {
    rep.evaluations += 1;
    let imp = std::panic::catch_unwind(|| parse_duration_to_milliseconds(s));
    let (m, class) = model_dur(model, s);
    rep.count(&format!("dur_class_{}", class));
    let imp = match imp {
        Ok(v) => v,
        Err(_) => {
            rep.disagree(json!({"origin": origin, "duration": s, "impl": "panic", "model": m}));
            rep.oracle_fail("C16:parse-duration-panics", json!({"origin": origin, "duration": s}));
            return;
        }
    };
    rep.count(if imp < 0 { "dur_result_negative" } else if imp == 0 { "dur_result_zero" } else { "dur_result_positive" });
    rep.nontrivial.insert(format!("dur:{}", s));
    if class == "fragile" {
        // f64 may legitimately round differently from exact decimal arithmetic here; allow ±1 ms or a
        // relative deviation of 2^-50 (recorded, not hidden)
        let diff = (imp as i128 - m as i128).abs();
        let tol = 1i128.max((m as i128).abs() >> 50);
        if diff == 0 {
            rep.count("dur_fragile_equal");
        } else if diff <= tol {
            rep.count("dur_fragile_off_by_rounding");
        } else {
            rep.disagree(json!({"origin": origin, "duration": s, "impl": imp, "model": m, "class": class}));
        }
    } else if imp != m {
        rep.disagree(json!({"origin": origin, "duration": s, "impl": imp, "model": m, "class": class}));
    }
    // the property: on the CSS2 language the implementation returns the grammar's value
    let c = model.ask(&format!("timer css2 {}", hexs(s)));
    if c != "none" {
        rep.count("dur_in_css2_language");
        if class == "exact" {
            if let Ok(v) = c.parse::<u128>() {
                let want = v.min(i64::MAX as u128) as i64;
                // an integer literal beyond i64 is the documented exception (−1)
                if imp != want && !(imp == -1 && !s.contains('.') && s.trim_end_matches(char::is_alphabetic).parse::<i64>().is_err()) {
                    rep.oracle_fail("C16:duration-value", json!({"origin": origin, "duration": s, "impl": imp, "css2": c}));
                }
            }
        }
    }
}

/// the reader's handling of the static `delay` attribute
fn check_reader_delay(s: &str, origin: &str, model: &mut Model, rep: &mut Report) {
    rep.evaluations += 1;
    let xml = format!(
        "<scxml xmlns=\"http://www.w3.org/2005/07/scxml\" version=\"1.0\" datamodel=\"null\" initial=\"s\">\
         <state id=\"s\"><onentry><send event=\"e\" delay=\"{}\"/></onentry></state></scxml>",
        xml_attr(s)
    );
    let r = std::panic::catch_unwind(|| scxml_reader::parse_from_xml(xml));
    let stored: Option<u64> = match r {
        Ok(Ok(fsm)) => {
            let mut found = None;
            for (_id, v) in fsm.executableContent.iter() {
                for ec in v {
                    if let Some(sp) = (**ec).as_any().downcast_ref::<SendParameters>() {
                        found = Some(sp.delay_ms);
                    }
                }
            }
            match found {
                Some(d) => Some(d),
                None => {
                    rep.disagree(json!({"origin": origin, "reader_delay": s, "impl": "no <send> in the parsed document"}));
                    return;
                }
            }
        }
        _ => None,
    };
    let (m, class) = model_dur(model, s);
    rep.count(if stored.is_some() { "reader_accepts" } else { "reader_rejects" });
    if class == "fragile" {
        return;
    }
    let want = if m < 0 { None } else { Some(m as u64) };
    if stored != want {
        rep.disagree(json!({"origin": origin, "reader_delay": s, "impl_delay_ms": stored, "model": m}));
    }
}

// ------------------------------------------------------------------------------------------------
// self-test: would the check notice a defective implementation?
// ------------------------------------------------------------------------------------------------

/// `parse_duration_to_milliseconds` as of /repo at the time of writing, with one deliberate defect
fn duration_mutant(m: u32, d: &str) -> i64 {
    use rufsm::expression_engine::lexer::ExpressionLexer;
    if d.is_empty() {
        return if m == 5 { -1 } else { 0 };
    }
    let mut exp = ExpressionLexer::new(d.to_string());
    let value_result = exp.next_number();
    if value_result.is_err() {
        return -1;
    }
    let Ok(unit) = exp.next_name() else {
        return if m == 3 { -1 } else { 0 };
    };
    let mut v = value_result.unwrap().as_double();
    let unit = if m == 4 { unit.to_lowercase() } else { unit };
    match unit.as_str() {
        "D" | "d" => v *= 24.0 * 60.0 * 60.0 * 1000.0,
        "H" | "h" => v *= 60.0 * 60.0 * 1000.0,
        "M" | "m" => v *= if m == 2 { 6000.0 } else { 60000.0 },
        "S" | "s" => v *= 1000.0,
        "MS" | "ms" => {}
        _ => return -1,
    }
    if m == 1 {
        v as i64
    } else if m == 6 {
        (v + 0.5).floor() as i64
    } else {
        v.round() as i64
    }
}

const DURATION_MUTANTS: &[(u32, &str)] = &[
    (1, "truncates instead of rounding"),
    (2, "minute = 6000 ms"),
    (3, "number without unit gives -1 instead of 0"),
    (4, "units matched case-insensitively (mS, Ms accepted)"),
    (5, "empty string gives -1"),
    (6, "rounds half up instead of half away from zero (negative ties)"),
];

fn selftest(args: &Args, model: &mut Model, rep: &mut Report) {
    let mut summary = serde_json::Map::new();
    // --- duration mutants against the model on the same strings as Part A (corpus + a slice of the generated ones)
    let mut strings = duration_corpus();
    for i in 0..1500 {
        let mut p = Prng::for_case(args.seed ^ 0xD0, i);
        strings.push(gen_duration(&mut p));
    }
    let mut verdicts: Vec<(String, String)> = Vec::new();
    for s in &strings {
        let (m, class) = model_dur(model, s);
        verdicts.push((format!("{}", m), class));
    }
    for (id, what) in DURATION_MUTANTS {
        let mut caught = 0;
        let mut example = None;
        for (s, (m, class)) in strings.iter().zip(verdicts.iter()) {
            if class == "fragile" {
                continue;
            }
            let got = duration_mutant(*id, s);
            if format!("{}", got) != *m {
                caught += 1;
                if example.is_none() {
                    example = Some(s.clone());
                }
            }
        }
        summary.insert(format!("duration mutant {}: {}", id, what), json!({"strings_that_expose_it": caught, "first": example}));
        if caught == 0 {
            rep.disagree(json!({"selftest": format!("duration mutant '{}' is not noticed by any string", what)}));
        }
    }
    // the unmutated copy must agree everywhere (else the copy, not the check, is stale)
    let stale = strings.iter().zip(verdicts.iter()).filter(|(s, (m, c))| c != "fragile" && format!("{}", duration_mutant(0, s)) != *m).count();
    summary.insert("duration copy (no defect) differing from the model".to_string(), json!(stale));

    // --- sabotaged documents: the oracle must object with the expected signature
    let op = |sess, at, kind| Op { sess, at, kind };
    let tests: Vec<(&str, &str, Case)> = vec![
        (
            "cancel-noop",
            "C16:cancelled-delivered",
            Case { senders: 1, ops: vec![op(0, 0, OpKind::Send(vec![mk_send(0, Some("A"), "120ms")])), op(0, 80, OpKind::Cancel("A".into()))], horizon: 240, sabotage: Some("cancel-noop".into()) },
        ),
        (
            "short-delay",
            "C16:early",
            Case { senders: 1, ops: vec![op(0, 0, OpKind::Send(vec![mk_send(0, None, "120ms")]))], horizon: 200, sabotage: Some("short-delay".into()) },
        ),
        (
            "late-eval",
            "C16:late-value",
            Case {
                senders: 1,
                ops: vec![op(0, 0, OpKind::Assign(1)), op(0, 80, OpKind::Send(vec![mk_send(0, None, "200ms")])), op(0, 160, OpKind::Assign(99))],
                horizon: 320,
                sabotage: Some("late-eval".into()),
            },
        ),
        (
            "drop-send",
            "C16:lost",
            Case { senders: 1, ops: vec![op(0, 0, OpKind::Send(vec![mk_send(0, None, "120ms")]))], horizon: 200, sabotage: Some("drop-send".into()) },
        ),
        (
            "dup-send",
            "C16:delivered-twice",
            Case { senders: 1, ops: vec![op(0, 0, OpKind::Send(vec![mk_send(0, None, "120ms")]))], horizon: 200, sabotage: Some("dup-send".into()) },
        ),
        (
            "no-terminate",
            "C16:terminated-delivered",
            Case { senders: 1, ops: vec![op(0, 0, OpKind::Send(vec![mk_send(0, None, "200ms")])), op(0, 80, OpKind::Term)], horizon: 280, sabotage: Some("no-terminate".into()) },
        ),
    ];
    // A sabotaged document is recognised by the same oracle that judges the real runs, and that oracle
    // refrains from timing verdicts on a run whose stamps show a scheduling stall (overloaded machine).
    // A self-test whose runs were all stalled is therefore INCONCLUSIVE, not a disagreement: it is
    // repeated (up to 4 rounds) and, if the machine never calms down, recorded as such.
    let mut failed: Vec<(String, String, Vec<String>)> = vec![];
    let mut stalled_last = 0u64;
    for round in 0..4 {
        let mut scratch = Report::new("c16-selftest", "");
        let prepared: Vec<Prepared> = tests.iter().map(|(n, _, c)| prepare(format!("corpus: selftest {}", n), c.clone(), model)).collect();
        run_timing(prepared, 6, model, &mut scratch);
        stalled_last = scratch.extra.get("timing_cases_undecided_because_stalled").and_then(|v| v.as_u64()).unwrap_or(0);
        failed.clear();
        for (name, want, _) in &tests {
            let sigs: Vec<String> = scratch
                .oracle_failures
                .iter()
                .filter(|f| f["origin"].as_str() == Some(&format!("corpus: selftest {}", name)))
                .map(|f| f["signature"].as_str().unwrap_or("").to_string())
                .collect();
            let ok = sigs.iter().any(|s| s.starts_with(want));
            let differs = scratch.disagreements.iter().any(|d| d["origin"].as_str() == Some(&format!("corpus: selftest {}", name)));
            summary.insert(format!("sabotage {}", name), json!({"expected": want, "oracle_said": sigs, "model_vs_impl_differs": differs, "round": round}));
            if !ok {
                failed.push((name.to_string(), want.to_string(), sigs));
            }
        }
        if failed.is_empty() {
            break;
        }
    }
    for (name, want, sigs) in &failed {
        if stalled_last > 0 {
            summary.insert(
                format!("sabotage {} INCONCLUSIVE", name),
                json!({"expected": want, "oracle_said": sigs, "reason": "the runs of the self-test were stalled (overloaded machine) in all 4 rounds; the oracle gives no timing verdict on a stalled run", "stalled_cases_in_last_round": stalled_last}),
            );
        } else {
            rep.disagree(json!({"selftest": format!("sabotage '{}' was not flagged as {}", name, want), "oracle_said": sigs}));
        }
    }
    rep.extra.insert("selftest".to_string(), Value::Object(summary));
}

// ------------------------------------------------------------------------------------------------

pub fn run(args: &Args, model: &mut Model) -> Report {
    let mut rep = Report::new(
        "c16",
        "timing case = operation script on a 40 ms grid (1-2 sender sessions + a recording session; sends with/without id, \
         with delay/delayexpr in many spellings, to the recorder or to the sender itself, blocks of 1-3 sends, cancels of \
         pending / delivered / foreign / unknown ids, data changes, termination), distinct by its model script; \
         duration case = one string, distinct by its text; all are non-trivial (a timing case needs real sessions and real time)",
    );
    if let Some(path) = &args.replay {
        let v: Value = serde_json::from_str(&std::fs::read_to_string(path).unwrap()).unwrap();
        if let Some(c) = v.get("case").and_then(Case::from_json) {
            let p = prepare("replay".to_string(), c, model);
            raise_priority();
            run_timing(vec![p], 1, model, &mut rep);
        } else if let Some(pr) = v.get("probe") {
            // free-form probe: a sender document (%R% = the recorder's session id), events at times, print the marks
            let marks: Marks = Arc::new(Mutex::new(Vec::new()));
            let executor = FsmExecutor::new_without_io_processor();
            let base = Instant::now();
            let mut rec = start(recorder_xml(), &marks, &executor).unwrap();
            let xml = pr["sender"].as_str().unwrap().replace("%R%", &rec.session_id.to_string());
            let mut snd = start(xml, &marks, &executor).unwrap();
            let t0 = Instant::now() + Duration::from_millis(30);
            for e in pr["events"].as_array().unwrap() {
                sleep_until(t0 + Duration::from_millis(e[0].as_u64().unwrap()));
                let _ = snd.sender.send(Box::new(Event::new_simple(e[1].as_str().unwrap())));
            }
            sleep_until(t0 + Duration::from_millis(pr["wait"].as_u64().unwrap_or(500)));
            let _ = rec.sender.send(Box::new(Event::new_simple(EVENT_CANCEL_SESSION)));
            let _ = snd.sender.send(Box::new(Event::new_simple(EVENT_CANCEL_SESSION)));
            let a = join_with_timeout(&mut rec, Duration::from_secs(3));
            let b = join_with_timeout(&mut snd, Duration::from_secs(3));
            let out: Vec<Value> = marks
                .lock()
                .unwrap()
                .iter()
                .map(|r| json!([r.at.duration_since(base).as_micros() as u64, r.sess, r.label, r.a1, r.a2]))
                .collect();
            rep.extra.insert("probe_marks".to_string(), json!(out));
            rep.extra.insert("probe_join".to_string(), json!(format!("{:?} {:?}", a, b)));
        } else if let Some(d) = v.get("duration").and_then(|x| x.as_str()) {
            check_duration(d, "replay", model, &mut rep);
        } else if let Some(d) = v.get("reader_delay").and_then(|x| x.as_str()) {
            check_reader_delay(d, "replay", model, &mut rep);
        }
        return rep;
    }
    // ---- Part A
    for s in duration_corpus() {
        check_duration(&s, "corpus", model, &mut rep);
        if !s.contains(['\t', '\n', '\r', '\u{0}']) {
            check_reader_delay(&s, "corpus", model, &mut rep);
        }
    }
    let n_dur = if args.thorough { 60000 } else { 4000 };
    for i in 0..n_dur {
        let mut p = Prng::for_case(args.seed ^ 0xD0, i);
        let s = gen_duration(&mut p);
        check_duration(&s, &format!("gen-dur seed={} index={}", args.seed, i), model, &mut rep);
        if i % 10 == 0 && !s.contains(['\t', '\n', '\r', '\u{0}']) {
            check_reader_delay(&s, &format!("gen-dur seed={} index={}", args.seed, i), model, &mut rep);
        }
    }
    // ---- Part B
    let boosted = raise_priority();
    rep.extra.insert("priority_raised".to_string(), json!(boosted));
    let mut cases = Vec::new();
    for (name, c) in corpus() {
        cases.push(prepare(format!("corpus: {}", name), c, model));
    }
    let n = if args.thorough { 4000 } else { 300 };
    for i in 0..n {
        let mut p = Prng::for_case(args.seed, i);
        let c = gen_case(&mut p);
        cases.push(prepare(format!("gen seed={} index={}", args.seed, i), c, model));
    }
    selftest(args, model, &mut rep);
    let workers = args.extra.iter().position(|x| x == "--workers").and_then(|i| args.extra.get(i + 1)).and_then(|x| x.parse().ok()).unwrap_or(12);
    run_timing(cases, workers, model, &mut rep);
    rep
}
