//! A delayed `<send>` that is re-armed with the same send id from the transition its own delivery
//! triggers (the periodic-tick idiom), through an I/O processor whose `send()` returns some time
//! AFTER the receiver already has the event (any transport with an acknowledge behaves like
//! that).  No `<cancel>` is executed, so every tick must arrive: C16 ("a delayed send is
//! delivered unless cancelled") and C13 ("no external event is lost").  Used by families c16
//! and c13.
use crate::report::Report;
use rufsm::actions::ActionWrapper;
use rufsm::datamodel::GlobalDataArc;
use rufsm::event_io_processor::{EventIOProcessor, ExternalQueueContainer};
use rufsm::fsm::{start_fsm_with_data_and_finish_mode, Event, FinishMode, SessionId};
use rufsm::fsm_executor::FsmExecutor;
use rufsm::scxml_reader::parse_from_xml;
use serde_json::json;
use std::time::{Duration, Instant};

#[derive(Debug, Default)]
struct SlowProcessor {
    handle: ExternalQueueContainer,
    hold_ms: u64,
}

const SLOW_TYPES: &[&str] = &["slow"];

impl EventIOProcessor for SlowProcessor {
    fn get_location(&self, id: SessionId) -> String {
        format!("slow://{}", id)
    }
    fn get_types(&self) -> &[&str] {
        SLOW_TYPES
    }
    fn get_external_queues(&mut self) -> &mut ExternalQueueContainer {
        &mut self.handle
    }
    fn get_copy(&self) -> Box<dyn EventIOProcessor> {
        Box::new(SlowProcessor { handle: self.handle.clone(), hold_ms: self.hold_ms })
    }
    /// delivers to the external queue of the sending session, then "waits for the acknowledge"
    fn send(&mut self, global: &GlobalDataArc, _target: &str, event: Event) -> bool {
        {
            global.lock().unwrap().externalQueue.enqueue(Box::new(event));
        }
        std::thread::sleep(Duration::from_millis(self.hold_ms));
        true
    }
    fn shutdown(&mut self) {}
}

fn doc(dm: &str, ticks: usize, with_id: bool) -> String {
    let id = if with_id { " id=\"tick\"" } else { "" };
    let mut s = format!(
        "<scxml xmlns=\"http://www.w3.org/2005/07/scxml\" version=\"1.0\" datamodel=\"{}\" initial=\"t0\">",
        dm
    );
    for k in 0..ticks {
        s.push_str(&format!(
            "<state id=\"t{k}\"><onentry>{wd}<send{id} event=\"tick\" type=\"slow\" delay=\"15ms\"/></onentry>\
             <transition event=\"tick\" target=\"{next}\"/><transition event=\"timeout\" target=\"fail\"/></state>",
            k = k,
            wd = if k == 0 { "<send id=\"watchdog\" event=\"timeout\" delay=\"2500ms\"/>" } else { "" },
            id = id,
            next = if k + 1 == ticks { "pass".to_string() } else { format!("t{}", k + 1) }
        ));
    }
    s.push_str("<final id=\"pass\"/><final id=\"fail\"/></scxml>");
    s
}

/// returns the final configuration (names), or an error text
fn run_once(dm: &str, ticks: usize, with_id: bool, hold_ms: u64) -> Result<Vec<String>, String> {
    let fsm = parse_from_xml(doc(dm, ticks, with_id))?;
    let mut executor = FsmExecutor::new_without_io_processor();
    executor.add_processor(Box::new(SlowProcessor { handle: ExternalQueueContainer::new(), hold_ms }));
    let mut session = start_fsm_with_data_and_finish_mode(fsm, ActionWrapper::new(), Box::new(executor), &[], FinishMode::KEEP_CONFIGURATION);
    let h = session.thread.take().unwrap();
    let s = Instant::now();
    while !h.is_finished() && s.elapsed() < Duration::from_secs(8) {
        std::thread::sleep(Duration::from_millis(2));
    }
    if !h.is_finished() {
        return Err("session did not end (watchdog lost too?)".to_string());
    }
    if h.join().is_err() {
        return Err("session thread panicked".to_string());
    }
    let fc = session.global_data.lock().map(|g| g.final_configuration.clone()).map_err(|_| "poisoned".to_string())?;
    Ok(fc.unwrap_or_default())
}

pub fn run(prop: &str, rep: &mut Report) {
    for dm in ["rfsm-expression", "ecmascript"] {
        for with_id in [true, false] {
            for hold in [40u64, 5] {
                rep.evaluations += 1;
                rep.count("rearm_through_slow_processor");
                let what = format!("{}:{}:hold{}ms", dm, if with_id { "same-id" } else { "no-id" }, hold);
                match run_once(dm, 4, with_id, hold) {
                    Ok(fc) if fc.iter().any(|n| n == "pass") => {
                        rep.nontrivial.insert(format!("rearm|{}", what));
                    }
                    Ok(fc) => rep.oracle_fail(
                        &format!("{}:rearmed-delayed-send-lost:{}", prop, if with_id { "same-id" } else { "no-id" }),
                        json!({"scenario": "periodic tick re-armed from its own delivery through an I/O processor whose send() returns after the receiver has the event",
                            "variant": what, "xml": doc(dm, 4, with_id), "final_configuration": fc}),
                    ),
                    Err(e) => rep.oracle_fail(&format!("{}:rearm-scenario-failed", prop), json!({"variant": what, "error": e})),
                }
            }
        }
    }
}
