//! C05 / C18 — the binary `.rfsm` format.  Correspondence of the Lean model M-CODEC
//! (lean/Rfsm/Model/Codec.lean, Sink.lean; driver family `codec`) with the real
//! `DefaultProtocolWriter` / `DefaultProtocolReader` / `FsmWriter` / `FsmReader`, and the property
//! oracles evaluated on what the real code does.
//!
//! family `c05`: (i) primitive writer/reader calls on boundary-heavy values, (ii) whole models
//! (generated SCXML → real XML reader → real FsmWriter → real FsmReader), (iii) behaviour of the
//! original vs the reloaded machine.  family `c18`: (iv-a) every / boundary-biased prefixes of
//! images through the real FsmReader, (iv-b) scripted short / failing sinks under the real FsmWriter.
#[path = "codec_gen.rs"]
mod gen;
#[path = "codec_dump.rs"]
pub mod dump;

use crate::obs::run_session;
use crate::prng::Prng;
use crate::proto::{hex, unhex, Model};
use crate::report::Report;
use crate::Args;
use dump::{data_from_real, data_tokens, optstr_tokens, In, MData, MFsm};
use rufsm::actions::ActionWrapper;
use rufsm::datamodel::{create_data_arc, Data, SourceCode};
use rufsm::executable_content::{Expression, ForEach, If, Log, Script, SendParameters};
use rufsm::executable_content::get_executable_content_as;
use rufsm::fsm::{Event, Fsm};
use rufsm::scxml_reader;
use rufsm::serializer::default_protocol_reader::DefaultProtocolReader;
use rufsm::serializer::default_protocol_writer::DefaultProtocolWriter;
use rufsm::serializer::fsm_reader::FsmReader;
use rufsm::serializer::fsm_writer::FsmWriter;
use rufsm::serializer::protocol_reader::ProtocolReader;
use rufsm::serializer::protocol_writer::ProtocolWriter;
use serde_json::{json, Value};
use std::cell::Cell;
use std::collections::HashMap;
use std::io::Write;
use std::panic::{catch_unwind, AssertUnwindSafe};
use std::rc::Rc;
use std::time::Duration;

const P60: u64 = 1u64 << 60;

// =====================================================================================
// (i) primitives
// =====================================================================================

#[derive(Clone, Debug)]
pub enum WOp {
    U(u64),
    S(String),
    B(bool),
    O(Option<String>),
    D(MData),
}

fn s_of(b: &[u8]) -> String {
    String::from_utf8(b.to_vec()).expect("generator strings are UTF-8")
}

/// real `Data` from the mirror value
pub fn to_real(d: &MData) -> Data {
    match d {
        MData::Integer(v) => Data::Integer(*v),
        MData::Double(t) => Data::Double(s_of(t).parse::<f64>().expect("generator doubles parse")),
        MData::Str(s) => Data::String(s_of(s)),
        MData::Boolean(b) => Data::Boolean(*b),
        MData::Array(a) => Data::Array(a.iter().map(|x| create_data_arc(to_real(x))).collect()),
        MData::Map(m) => {
            let mut h = HashMap::new();
            for (k, x) in m {
                h.insert(s_of(k), create_data_arc(to_real(x)));
            }
            Data::Map(h)
        }
        MData::Null => Data::Null(),
        MData::Error(s) => Data::Error(s_of(s)),
        MData::Source(s, id) => Data::Source(SourceCode::new(&s_of(s), *id as usize)),
        MData::None => Data::None(),
    }
}

fn wops_tokens(ops: &[(WOp, Option<Data>)]) -> String {
    let mut v = Vec::new();
    for (op, real) in ops {
        match op {
            WOp::U(x) => v.push(format!("u {}", x)),
            WOp::S(s) => v.push(format!("s {}", hex(s.as_bytes()))),
            WOp::B(b) => v.push(format!("b {}", if *b { 1 } else { 0 })),
            WOp::O(o) => v.push(format!("o {}", optstr_tokens(&o.as_ref().map(|s| s.as_bytes().to_vec())))),
            // the order of a real HashMap is what the writer will use: dump the real value
            WOp::D(_) => v.push(format!("d {}", data_tokens(&data_from_real(real.as_ref().unwrap())))),
        }
    }
    v.join(" ")
}

fn realise(ops: &[WOp]) -> Vec<(WOp, Option<Data>)> {
    ops.iter()
        .map(|o| match o {
            WOp::D(d) => (o.clone(), Some(to_real(d))),
            _ => (o.clone(), None),
        })
        .collect()
}

fn real_write<W: Write>(w: &mut DefaultProtocolWriter<W>, ops: &[(WOp, Option<Data>)]) {
    for (op, real) in ops {
        match op {
            WOp::U(x) => w.write_uint(*x),
            WOp::S(s) => w.write_str(s),
            WOp::B(b) => w.write_boolean(*b),
            WOp::O(o) => w.write_option_string(o),
            WOp::D(_) => w.write_data(real.as_ref().unwrap()),
        }
    }
}

#[derive(Debug, PartialEq, Clone)]
enum RVal {
    U(u64),
    S(Vec<u8>),
    B(bool),
    O(Option<Vec<u8>>),
    D(MData),
}

fn rops_of(ops: &[WOp]) -> Vec<&'static str> {
    ops.iter()
        .map(|o| match o {
            WOp::U(_) => "u",
            WOp::S(_) => "s",
            WOp::B(_) => "b",
            WOp::O(_) => "o",
            WOp::D(_) => "d",
        })
        .collect()
}

/// runs reader calls on the real reader; None = panicked
fn real_read(bytes: &[u8], rops: &[&str]) -> Option<(Vec<RVal>, bool)> {
    catch_unwind(AssertUnwindSafe(|| {
        let mut r = DefaultProtocolReader::new(bytes);
        let mut out = Vec::new();
        for op in rops {
            out.push(match *op {
                "u" => RVal::U(r.read_uint()),
                "u8" => RVal::U(r.read_u8() as u64),
                "s" => RVal::S(r.read_string().into_bytes()),
                "b" => RVal::B(r.read_boolean()),
                "o" => RVal::O(r.read_option_string().map(|s| s.into_bytes())),
                "d" => RVal::D(data_from_real(&r.read_data()).canon()),
                x => panic!("bad rop {}", x),
            });
        }
        (out, r.has_error())
    }))
    .ok()
}

/// parses the model's answer to `codec read`
fn parse_read_answer(ans: &str) -> Result<(Vec<RVal>, bool, Option<String>), String> {
    let mut i = In::new(ans);
    let mut out = Vec::new();
    loop {
        match i.tok()? {
            "u" => out.push(RVal::U({
                let t = i.tok()?;
                t.parse::<u64>().map_err(|e| format!("{}: {}", t, e))?
            })),
            "s" => out.push(RVal::S(i.hex()?)),
            "b" => out.push(RVal::B(i.bit()?)),
            "o" => out.push(RVal::O(i.optstr()?)),
            "d" => out.push(RVal::D(i.data()?.canon())),
            "E" => {
                let e = i.bit()?;
                let p = if !i.done() {
                    i.tok()?;
                    Some(i.tok()?.to_string())
                } else {
                    None
                };
                return Ok((out, e, p));
            }
            t => return Err(format!("unexpected token '{}' in model answer", t)),
        }
    }
}

fn written_val(op: &WOp, real: &Option<Data>) -> RVal {
    match op {
        WOp::U(x) => RVal::U(*x),
        WOp::S(s) => RVal::S(s.as_bytes().to_vec()),
        WOp::B(b) => RVal::B(*b),
        WOp::O(o) => RVal::O(o.as_ref().map(|s| s.as_bytes().to_vec())),
        WOp::D(_) => RVal::D(data_from_real(real.as_ref().unwrap()).canon()),
    }
}

/// signature of a value that fails to round-trip.  The classes `len>=4096` and `v>=2^60` were known
/// findings (P6, P5) until the repairs of round 2; they are kept as signatures so that a regression
/// names its cause — no known finding matches them any more, so each is a VIOLATION.
fn classify_prim(op: &WOp, panicked: bool) -> String {
    let mut long = false;
    let mut big = false;
    match op {
        WOp::U(x) => big = *x >= P60,
        WOp::S(s) => long = s.len() >= 4096,
        WOp::O(Some(s)) => long = s.len() >= 4096,
        WOp::D(d) => d.visit(&mut |s| long |= s.len() >= 4096, &mut |u| big |= u >= P60),
        _ => {}
    }
    let kind = match op {
        WOp::U(_) => "uint",
        WOp::S(_) => "str",
        WOp::B(_) => "bool",
        WOp::O(_) => "optstr",
        WOp::D(_) => "data",
    };
    if panicked {
        if long {
            format!("C05:{}:len>=4096:panic-char-boundary", kind)
        } else {
            format!("C05:{}:panic", kind)
        }
    } else if long {
        format!("C05:{}:len>=4096:truncated", kind)
    } else if big {
        format!("C05:{}:v>=2^60", kind)
    } else {
        format!("C05:{}:other", kind)
    }
}

fn ops_json(ops: &[WOp]) -> Value {
    Value::Array(
        ops.iter()
            .map(|o| match o {
                WOp::U(x) => json!({"u": x.to_string()}),
                WOp::S(s) => {
                    if s.len() > 64 {
                        json!({"s_len": s.len(), "s_head": hex(&s.as_bytes()[..32]), "s_unit_tail": hex(&s.as_bytes()[s.len() - 8..])})
                    } else {
                        json!({"s": hex(s.as_bytes())})
                    }
                }
                WOp::B(b) => json!({"b": b}),
                WOp::O(o) => json!({"o": o.as_ref().map(|s| hex(s.as_bytes()))}),
                WOp::D(d) => {
                    let t = data_tokens(d);
                    json!({"d": if t.len() > 400 { format!("{}…({} chars)", cut(&t, 400), t.len()) } else { t }})
                }
            })
            .collect(),
    )
}

/// replayable form (complete)
fn ops_replay(ops: &[WOp]) -> Value {
    Value::Array(
        ops.iter()
            .map(|o| match o {
                WOp::U(x) => json!(["u", x.to_string()]),
                WOp::S(s) => json!(["s", hex(s.as_bytes())]),
                WOp::B(b) => json!(["b", b]),
                WOp::O(o) => json!(["o", o.as_ref().map(|s| hex(s.as_bytes()))]),
                WOp::D(d) => json!(["d", data_tokens(d)]),
            })
            .collect(),
    )
}

fn ops_from_replay(v: &Value) -> Vec<WOp> {
    v.as_array()
        .unwrap()
        .iter()
        .map(|e| {
            let k = e[0].as_str().unwrap();
            match k {
                "u" => WOp::U(e[1].as_str().unwrap().parse().unwrap()),
                "s" => WOp::S(s_of(&unhex(e[1].as_str().unwrap()).unwrap())),
                "b" => WOp::B(e[1].as_bool().unwrap()),
                "o" => WOp::O(e[1].as_str().map(|h| s_of(&unhex(h).unwrap()))),
                "d" => WOp::D(In::new(e[1].as_str().unwrap()).data().unwrap()),
                _ => panic!("bad replay op"),
            }
        })
        .collect()
}

pub fn check_prims(ops: &[WOp], model: &mut Model, rep: &mut Report, origin: &str) {
    rep.evaluations += 1;
    let rops = realise(ops);
    let toks = wops_tokens(&rops);
    // ---- write: real vs model
    let real = catch_unwind(AssertUnwindSafe(|| {
        let mut w = DefaultProtocolWriter::new(Vec::new());
        real_write(&mut w, &rops);
        (w.writer.clone(), w.has_error())
    }));
    let m = model.ask(&format!("codec write {}", toks));
    let impl_s = match &real {
        Ok((b, _)) => hex(b),
        Err(_) => "panic".to_string(),
    };
    if m != impl_s {
        rep.disagree(json!({"origin": origin, "what": "write", "ops": ops_json(ops), "impl": short(&impl_s), "model": short(&m), "replay_ops": ops_replay(ops)}));
    }
    for o in ops {
        match o {
            WOp::U(x) => rep.count(&format!("prim_uint_width_{}", (64 - x.leading_zeros() + 3) / 4 * 4)),
            WOp::S(s) => rep.count(&format!("prim_str_len_class_{}", len_class(s.len()))),
            WOp::D(d) => rep.count(&format!("prim_data_{}", data_kind(d))),
            WOp::B(_) => rep.count("prim_bool"),
            WOp::O(_) => rep.count("prim_optstr"),
        }
    }
    rep.nontrivial.insert(format!("P|{:x}", fxhash(toks.as_bytes())));
    let (bytes, werr) = match real {
        Ok(x) => x,
        Err(_) => {
            // which op panicked? replay singly for the signature
            rep.count("prim_write_panics");
            let culprit = ops.iter().find(|o| {
                let one = realise(&[(*o).clone()]);
                catch_unwind(AssertUnwindSafe(|| {
                    let mut w = DefaultProtocolWriter::new(Vec::new());
                    real_write(&mut w, &one);
                }))
                .is_err()
            });
            let sig = classify_prim(culprit.unwrap_or(&ops[0]), true);
            ofail(rep, &sig, json!({"origin": origin, "case": "prims", "what": "writer panicked", "ops": ops_json(ops), "replay_ops": ops_replay(ops)}));
            return;
        }
    };
    if werr {
        ofail(rep, "C05:prims:writer-error-on-vec", json!({"origin": origin, "case": "prims", "replay_ops": ops_replay(ops)}));
    }
    // ---- read back: real vs model
    let names = rops_of(ops);
    let rr = real_read(&bytes, &names);
    let ans = model.ask(&format!("codec read {} {}", hex(&bytes), names.join(" ")));
    let mm = parse_read_answer(&ans);
    match (&rr, &mm) {
        (Some((rv, re)), Ok((mv, me, None))) => {
            if rv != mv || re != me {
                rep.disagree(json!({"origin": origin, "what": "read-back", "ops": ops_json(ops), "impl": format!("{:?} err={}", trunc_dbg(rv), re), "model": format!("{:?} err={}", trunc_dbg(mv), me), "replay_ops": ops_replay(ops)}));
            }
        }
        _ => {
            rep.disagree(json!({"origin": origin, "what": "read-back", "ops": ops_json(ops), "impl_panicked": rr.is_none(), "model": short(&ans), "replay_ops": ops_replay(ops)}));
        }
    }
    // ---- oracle: what was written is what is read
    if let Some((rv, re)) = rr {
        let mut failed = false;
        for (i, (op, real)) in rops.iter().enumerate() {
            if rv[i] != written_val(op, real) {
                let sig = classify_prim(op, false);
                ofail(rep, 
                    &sig,
                    json!({"origin": origin, "case": "prims", "position": i, "ops": ops_json(ops), "read_back": format!("{:?}", trunc_dbg(&rv[i..i + 1])), "replay_ops": ops_replay(ops)}),
                );
                failed = true;
                break;
            }
        }
        if !failed && re {
            ofail(rep, "C05:prims:reader-error-on-own-output", json!({"origin": origin, "case": "prims", "replay_ops": ops_replay(ops)}));
        }
        if !failed {
            rep.count("prim_roundtrip_ok");
        }
    } else {
        ofail(rep, "C05:prims:reader-panic", json!({"origin": origin, "case": "prims", "replay_ops": ops_replay(ops)}));
    }
}

fn trunc_dbg(v: &[RVal]) -> Vec<String> {
    v.iter()
        .map(|x| {
            let s = format!("{:?}", x);
            if s.len() > 120 {
                format!("{}…", cut(&s, 120))
            } else {
                s
            }
        })
        .collect()
}

fn cut(s: &str, n: usize) -> &str {
    let mut k = n.min(s.len());
    while !s.is_char_boundary(k) {
        k -= 1;
    }
    &s[..k]
}

fn short(s: &str) -> String {
    if s.len() > 300 {
        format!("{}…({} chars)", cut(s, 300), s.len())
    } else {
        s.to_string()
    }
}

fn len_class(n: usize) -> &'static str {
    match n {
        0 => "0",
        1..=14 => "1-14",
        15 => "15",
        16 => "16",
        17..=4094 => "17-4094",
        4095 => "4095",
        4096 => "4096",
        4097..=8191 => "4097-8191",
        _ => ">=8192",
    }
}

fn data_kind(d: &MData) -> &'static str {
    match d {
        MData::Integer(_) => "integer",
        MData::Double(_) => "double",
        MData::Str(_) => "string",
        MData::Boolean(_) => "boolean",
        MData::Array(_) => "array",
        MData::Map(_) => "map",
        MData::Null => "null",
        MData::Error(_) => "error",
        MData::Source(_, _) => "source",
        MData::None => "none",
    }
}

pub fn fxhash(b: &[u8]) -> u64 {
    let mut h: u64 = 0xcbf29ce484222325;
    for x in b {
        h ^= *x as u64;
        h = h.wrapping_mul(0x100000001b3);
    }
    h
}

// ---- raw decoding of arbitrary bytes (model vs implementation only)

pub fn check_raw_read(bytes: &[u8], rops: &[&str], model: &mut Model, rep: &mut Report, origin: &str) {
    rep.evaluations += 1;
    rep.count("raw_read_cases");
    let rr = real_read(bytes, rops);
    let ans = model.ask(&format!("codec read {} {}", hex(bytes), rops.join(" ")));
    let mm = parse_read_answer(&ans);
    rep.nontrivial.insert(format!("R|{:x}|{}", fxhash(bytes), rops.join("")));
    match (&rr, &mm) {
        (Some((rv, re)), Ok((mv, me, None))) => {
            if *re {
                rep.count("raw_read_error");
            } else {
                rep.count("raw_read_clean");
            }
            if rv != mv || re != me {
                rep.disagree(json!({"origin": origin, "what": "raw-read", "bytes": hex(bytes), "rops": rops, "impl": format!("{:?} err={}", trunc_dbg(rv), re), "model": format!("{:?} err={}", trunc_dbg(mv), me)}));
            }
        }
        _ => rep.disagree(json!({"origin": origin, "what": "raw-read", "bytes": hex(bytes), "rops": rops, "impl_panicked": rr.is_none(), "model": short(&ans)})),
    }
}

// ---- generators for primitives

pub fn boundary_uints() -> Vec<u64> {
    let mut v = vec![0u64, 1, u64::MAX, u64::MAX - 1, 0x1111111111111110, 0xFFFFFFFFFFFFFFF0, 0x8000000000000000];
    for k in [4u32, 8, 12, 16, 20, 24, 28, 32, 36, 40, 44, 48, 52, 56, 60, 63] {
        let b = 1u64 << k;
        v.extend_from_slice(&[b - 1, b, b + 1]);
    }
    v
}

pub fn make_string(len: usize, unit: &str, lead: usize) -> String {
    let mut s = String::new();
    for _ in 0..lead {
        s.push('x');
    }
    while s.len() + unit.len() <= len {
        s.push_str(unit);
    }
    while s.len() < len {
        s.push('_');
    }
    s
}

const STR_LENS: &[usize] = &[0, 1, 14, 15, 16, 17, 255, 256, 257, 4094, 4095, 4096, 4097, 5000, 8191, 8192, 8193, 65535, 65536, 70000];

fn gen_uint(p: &mut Prng) -> u64 {
    match p.below(4) {
        0 => *p.pick(&boundary_uints()),
        1 => {
            let bits = p.range(1, 64);
            let v = p.next();
            if bits == 64 {
                v
            } else {
                v & ((1u64 << bits) - 1)
            }
        }
        2 => p.below(5000),
        _ => {
            // all nibbles equal: the values >= 2^60 that do survive
            let n = p.range(1, 15);
            let mut v = 0u64;
            for _ in 0..16 {
                v = (v << 4) | n;
            }
            v ^ p.below(16)
        }
    }
}

fn gen_string(p: &mut Prng, allow_long: bool) -> String {
    let unit = *p.pick(&["a", "é", "日", "𝄞", "ab", "é日𝄞"]);
    let len = match p.below(4) {
        0 => *p.pick(STR_LENS),
        1 => p.below(40) as usize,
        2 => p.range(4000, 4200) as usize,
        _ => p.below(600) as usize,
    };
    let len = if !allow_long && len >= 4096 { len % 4096 } else { len };
    make_string(len, unit, p.below(4) as usize)
}

fn gen_double_text(p: &mut Prng) -> String {
    let v: f64 = match p.below(8) {
        0 => 0.0,
        1 => -0.0,
        2 => f64::INFINITY,
        3 => f64::NEG_INFINITY,
        4 => f64::NAN,
        5 => (p.below(2000) as f64 - 1000.0) / 8.0,
        6 => f64::from_bits(p.next()),
        _ => 1.0e300 * (p.below(10) as f64),
    };
    v.to_string()
}

pub fn gen_data(p: &mut Prng, depth: u32, allow_long: bool) -> MData {
    let k = p.below(if depth >= 3 { 8 } else { 10 });
    match k {
        0 => MData::Integer(match p.below(5) {
            0 => i64::MIN,
            1 => i64::MAX,
            2 => 0,
            3 => -(p.below(100000) as i64),
            _ => p.next() as i64,
        }),
        1 => MData::Double(gen_double_text(p).into_bytes()),
        2 => MData::Str(gen_string(p, allow_long).into_bytes()),
        3 => MData::Boolean(p.chance(1, 2)),
        4 => MData::Null,
        5 => MData::Error(gen_string(p, false).into_bytes()),
        6 => MData::Source(gen_string(p, allow_long).into_bytes(), if p.chance(1, 6) { gen_uint(p) } else { p.below(100000) }),
        7 => MData::None,
        8 => {
            let n = match p.below(4) {
                0 => 0,
                1 => 16,
                _ => p.below(4),
            };
            MData::Array((0..n).map(|_| gen_data(p, depth + 1, allow_long)).collect())
        }
        _ => {
            let n = p.below(4);
            let mut m: Vec<(Vec<u8>, MData)> = Vec::new();
            for i in 0..n {
                let k = format!("k{}{}", i, p.pick(&["", "é", "日本"]));
                m.push((k.into_bytes(), gen_data(p, depth + 1, allow_long)));
            }
            MData::Map(m)
        }
    }
}

fn gen_prim_case(p: &mut Prng) -> Vec<WOp> {
    let n = p.range(1, 5);
    let long_at = if p.chance(1, 5) { p.below(n) } else { u64::MAX };
    (0..n)
        .map(|i| {
            let allow_long = i == long_at;
            match p.below(6) {
                0 | 1 => WOp::U(gen_uint(p)),
                2 => WOp::S(gen_string(p, allow_long)),
                3 => WOp::B(p.chance(1, 2)),
                4 => WOp::O(if p.chance(1, 3) { None } else { Some(gen_string(p, allow_long)) }),
                _ => WOp::D(gen_data(p, 0, allow_long)),
            }
        })
        .collect()
}

/// header + payload of a string as the writer would emit it
fn enc_str(s: &[u8]) -> Vec<u8> {
    let mut v = Vec::new();
    if s.len() < 16 {
        v.push(0xC0 | s.len() as u8);
    } else if s.len() < 4096 {
        v.push(0xD0 | ((s.len() >> 8) as u8 & 0x0F));
        v.push(s.len() as u8);
    } else {
        v.push(0xE0);
        v.extend_from_slice(&(s.len() as u64).to_be_bytes());
    }
    v.extend_from_slice(s);
    v
}

const NUM_TEXTS: &[&str] = &[
    "", "+", "-", "0", "-0", "+5", "007", "12a", "9223372036854775807", "9223372036854775808", "-9223372036854775808",
    "-9223372036854775809", "1e", "1e5", "1E-3", "1e+", ".", "1.", ".5", "+.5e1", "inf", "-Infinity", "infinit", "nan", "NaN",
    "+nan", "0x10", "1_0", " 1", "1 ", "e5", "1.5.2", "--1", "١", "1e309", "4.9e-324", "Inf", "iNfInItY", "1e0.5",
];

fn gen_raw_case(p: &mut Prng) -> (Vec<u8>, Vec<&'static str>) {
    match p.below(6) {
        // a valid stream of scalar values, then one byte changed / removed / inserted, or a cut
        4 | 5 => {
            let n = p.range(1, 5);
            let ops: Vec<WOp> = (0..n)
                .map(|_| match p.below(5) {
                    0 | 1 => WOp::U(gen_uint(p) % P60),
                    2 => WOp::S(gen_string(p, false)),
                    3 => WOp::B(p.chance(1, 2)),
                    _ => WOp::O(if p.chance(1, 3) { None } else { Some(gen_string(p, false)) }),
                })
                .collect();
            let mut w = DefaultProtocolWriter::new(Vec::new());
            real_write(&mut w, &realise(&ops));
            let mut b = w.writer.clone();
            if !b.is_empty() {
                let k = p.below(b.len() as u64) as usize;
                match p.below(5) {
                    0 => b[k] = p.below(256) as u8,
                    1 => {
                        b.remove(k);
                    }
                    2 => b.insert(k, p.below(256) as u8),
                    3 => b.truncate(k),
                    _ => {}
                }
            }
            (b, rops_of(&ops))
        }
        // arbitrary bytes, biased to the type nibbles, scalar reads only
        0 | 1 => {
            let n = p.below(24) as usize;
            let mut b = Vec::new();
            for _ in 0..n {
                let hi = *p.pick(&[0x00u8, 0x10, 0x10, 0x20, 0x30, 0x30, 0x40, 0x50, 0x60, 0x70, 0x80, 0x90, 0xA0, 0xB0, 0xC0, 0xC0, 0xD0, 0xE0, 0xF0]);
                let lo = match p.below(4) {
                    0 => 0,
                    1 => 0x0F,
                    _ => p.below(16) as u8,
                };
                b.push(hi | lo);
                if p.chance(1, 3) {
                    b.push(p.below(256) as u8);
                }
            }
            let k = p.range(1, 6);
            let rops = (0..k).map(|_| *p.pick(&["u", "u8", "s", "b", "o", "u", "s"])).collect();
            (b, rops)
        }
        // data values with a leaf that does not parse / an unknown tag / a cut
        2 => {
            let mut b = Vec::new();
            let tag = *p.pick(&[1u8, 2, 1, 2, 3, 4, 7, 8, 9, 0, 10, 15]);
            b.push(0x30 | tag);
            match tag {
                1 | 2 => b.extend(enc_str(p.pick(NUM_TEXTS).as_bytes())),
                3 | 7 => b.extend(enc_str(*p.pick(&[&b"ok"[..], &[0xC3][..], &[0xE0, 0x80, 0x80][..], &[0xED, 0xA0, 0x80][..], &[0xF4, 0x90, 0x80, 0x80][..], &[0xF0, 0x9D, 0x84, 0x9E][..], &[0x80][..], &[0xC0, 0xAF][..]]))),
                4 => b.push(*p.pick(&[0x1F, 0x10, 0x11, 0x00, 0xC0])),
                8 => {
                    b.extend(enc_str(b"src"));
                    b.extend(*p.pick(&[&[0x35u8][..], &[0x40, 0x20][..], &[0xC0][..], &[][..]]));
                }
                _ => {}
            }
            if p.chance(1, 4) && !b.is_empty() {
                let k = p.below(b.len() as u64) as usize;
                b.truncate(k);
            }
            (b, vec!["d", "u"])
        }
        // small arrays / maps of such leaves
        _ => {
            let mut b = Vec::new();
            let is_map = p.chance(1, 2);
            let n = p.below(3) as u8;
            b.push(if is_map { 0x36 } else { 0x35 });
            b.push(0x30 | n);
            for _ in 0..n {
                if is_map {
                    b.extend(enc_str(p.pick(&["k", "k", "j"]).as_bytes()));
                }
                match p.below(3) {
                    0 => {
                        b.push(0x31);
                        b.extend(enc_str(p.pick(NUM_TEXTS).as_bytes()));
                    }
                    1 => {
                        b.push(0x32);
                        b.extend(enc_str(p.pick(NUM_TEXTS).as_bytes()));
                    }
                    _ => b.push(0x39),
                }
            }
            if p.chance(1, 3) && !b.is_empty() {
                let k = p.below(b.len() as u64) as usize;
                b.truncate(k);
            }
            (b, vec!["d", "b"])
        }
    }
}

fn prim_corpus() -> Vec<Vec<WOp>> {
    let mut c: Vec<Vec<WOp>> = Vec::new();
    // P5: the witness of C05_uint_counterexample, and every width boundary
    c.push(vec![WOp::U(P60)]);
    for v in boundary_uints() {
        c.push(vec![WOp::U(v), WOp::U(7)]);
    }
    // P6: the witnesses of C05_str_counterexample (4096 ASCII bytes) and of the panic
    for len in STR_LENS {
        c.push(vec![WOp::S(make_string(*len, "a", 0)), WOp::U(1)]);
        c.push(vec![WOp::S(make_string(*len, "é", 0))]);
        c.push(vec![WOp::S(make_string(*len, "é", 1))]);
        c.push(vec![WOp::O(Some(make_string(*len, "日", 2))), WOp::O(None)]);
    }
    // multi-byte text cut at every offset of a character around the 4096 boundary
    for lead in 0..4 {
        c.push(vec![WOp::S(make_string(4096 + 8, "𝄞", lead))]);
        c.push(vec![WOp::S(make_string(8192 + 4, "日", lead))]);
    }
    c.push(vec![WOp::B(true), WOp::B(false), WOp::O(None), WOp::O(Some(String::new()))]);
    for t in ["0", "-0", "1.5", "NaN", "inf", "-inf", "1e300", "5e-324", "0.1"] {
        c.push(vec![WOp::D(MData::Double(t.as_bytes().to_vec()))]);
    }
    for v in [0i64, 1, -1, i64::MAX, i64::MIN, 1000000, -999] {
        c.push(vec![WOp::D(MData::Integer(v)), WOp::U(3)]);
    }
    c.push(vec![WOp::D(MData::Array(vec![
        MData::Map(vec![(b"k".to_vec(), MData::Array(vec![MData::None, MData::Null])), (b"l".to_vec(), MData::Boolean(true))]),
        MData::Source(b"x = 1".to_vec(), 77),
        MData::Error(b"oops".to_vec()),
        MData::Str("日本".as_bytes().to_vec()),
    ]))]);
    c.push(vec![WOp::D(MData::Source(b"s".to_vec(), P60))]);
    c.push(vec![WOp::D(MData::Str(make_string(4096, "a", 0).into_bytes()))]);
    c
}

// =====================================================================================
// (ii) whole models
// =====================================================================================

pub struct FsmCase {
    pub xml: String,
    /// programmatic additions applied after parsing (seeded)
    pub augment: Option<u64>,
    pub behave: bool,
    pub events: Vec<String>,
}

fn data_for_augment(p: &mut Prng, big: bool) -> Data {
    to_real(&gen_data(p, 1, big))
}

/// things the XML reader never produces but a model can contain: the `Script` kind, every `Data`
/// variant in `Data`-typed fields, large ids / delays
pub fn augment(fsm: &mut Fsm, seed: u64, big: bool, rep: &mut Report) {
    let mut p = Prng::new(seed);
    let ids: Vec<u32> = fsm.executableContent.keys().cloned().collect();
    if ids.is_empty() {
        return;
    }
    let n = p.range(1, 4);
    for _ in 0..n {
        let rid = *p.pick(&ids);
        match p.below(5) {
            0 => {
                let c: Vec<u32> = (0..p.below(4)).map(|_| if p.chance(1, 4) { p.next() as u32 } else { *p.pick(&ids) }).collect();
                fsm.executableContent.get_mut(&rid).unwrap().push(Box::new(Script { content: c }));
                rep.count("augment_script_kind");
            }
            1 => {
                let d = data_for_augment(&mut p, big);
                rep.count(&format!("augment_log_data_{}", data_kind(&data_from_real(&d))));
                fsm.executableContent.get_mut(&rid).unwrap().push(Box::new(Log { label: "aug".into(), expression: d }));
            }
            2 => {
                let d = data_for_augment(&mut p, big);
                let mut i = If::new(d);
                i.content = *p.pick(&ids);
                i.else_content = if p.chance(1, 2) { 0 } else { p.next() as u32 };
                fsm.executableContent.get_mut(&rid).unwrap().push(Box::new(i));
                rep.count("augment_if_data");
            }
            3 => {
                let mut s = SendParameters::new();
                s.delay_ms = if big && p.chance(1, 2) { gen_uint(&mut p) } else { gen_uint(&mut p) % P60 };
                s.event = data_for_augment(&mut p, big);
                s.delay_expr = data_for_augment(&mut p, big);
                fsm.executableContent.get_mut(&rid).unwrap().push(Box::new(s));
                rep.count("augment_send_delay");
            }
            _ => {
                let mut e = Expression::new();
                e.content = data_for_augment(&mut p, big);
                fsm.executableContent.get_mut(&rid).unwrap().push(Box::new(e));
                let mut f = ForEach::new();
                f.array = data_for_augment(&mut p, big);
                f.content = p.next() as u32;
                fsm.executableContent.get_mut(&rid).unwrap().push(Box::new(f));
                rep.count("augment_expression_foreach_data");
            }
        }
    }
    if p.chance(1, 2) {
        let tids: Vec<u32> = fsm.transitions.keys().cloned().collect();
        if !tids.is_empty() {
            let t = fsm.transitions.get_mut(p.pick(&tids)).unwrap();
            t.cond = data_for_augment(&mut p, big);
            rep.count("augment_transition_cond_data");
        }
    }
    // keep the compiler honest about unused imports in some configurations
    let _ = get_executable_content_as::<If>;
}

/// spy on the protocol reader's error flag while `FsmReader` owns it
struct Spy<'a> {
    inner: DefaultProtocolReader<&'a [u8]>,
    flag: Rc<Cell<bool>>,
}

impl<'a> Spy<'a> {
    fn sync(&self) {
        self.flag.set(self.inner.has_error());
    }
}

impl<'a> ProtocolReader<&'a [u8]> for Spy<'a> {
    fn verify_version(&mut self) {
        self.inner.verify_version();
        self.sync();
    }
    fn close(&mut self) {
        self.inner.close();
    }
    fn read_boolean(&mut self) -> bool {
        let r = self.inner.read_boolean();
        self.sync();
        r
    }
    fn read_option_string(&mut self) -> Option<String> {
        let r = self.inner.read_option_string();
        self.sync();
        r
    }
    fn read_data(&mut self) -> Data {
        let r = self.inner.read_data();
        self.sync();
        r
    }
    fn read_string(&mut self) -> String {
        let r = self.inner.read_string();
        self.sync();
        r
    }
    fn read_usize(&mut self) -> usize {
        let r = self.inner.read_usize();
        self.sync();
        r
    }
    fn read_uint(&mut self) -> u64 {
        let r = self.inner.read_uint();
        self.sync();
        r
    }
    fn has_error(&self) -> bool {
        self.inner.has_error()
    }
}

pub enum ReadOut {
    Ok(Box<Fsm>, bool),
    CantRead,
    Version(Vec<u8>),
    Panic(String),
    OtherErr(String),
}

fn panic_text(e: Box<dyn std::any::Any + Send>) -> String {
    if let Some(s) = e.downcast_ref::<String>() {
        s.clone()
    } else if let Some(s) = e.downcast_ref::<&str>() {
        s.to_string()
    } else {
        "?".to_string()
    }
}

pub fn real_read_image(bytes: &[u8]) -> ReadOut {
    let flag = Rc::new(Cell::new(false));
    let r = catch_unwind(AssertUnwindSafe(|| {
        let mut rd = FsmReader::new(Box::new(Spy { inner: DefaultProtocolReader::new(bytes), flag: flag.clone() }));
        rd.read()
    }));
    match r {
        Ok(Ok(f)) => ReadOut::Ok(f, flag.get()),
        Ok(Err(e)) => {
            if e == "Can't read" {
                ReadOut::CantRead
            } else if let Some(rest) = e.strip_prefix("Version mismatch: '") {
                match rest.rfind("' is not '") {
                    Some(i) => ReadOut::Version(rest[..i].as_bytes().to_vec()),
                    None => ReadOut::OtherErr(e),
                }
            } else {
                ReadOut::OtherErr(e)
            }
        }
        Err(p) => {
            let m = panic_text(p);
            if let Some(r) = m.strip_prefix("Unknown ordinal ") {
                if let Some(n) = r.strip_suffix(" for BindingType") {
                    return ReadOut::Panic(format!("binding:{}", n));
                }
            }
            if let Some(n) = m.strip_prefix("Unknown Executable Content: ") {
                return ReadOut::Panic(format!("content:{}", n));
            }
            ReadOut::Panic(format!("other:{}", m))
        }
    }
}

/// the read result in the form of the model's `dec-fsm` answer, canonicalised
pub fn readout_string(r: &ReadOut) -> String {
    match r {
        ReadOut::Ok(f, e) => match MFsm::from_real(f) {
            Ok(m) => format!("ok {} {}", if *e { 1 } else { 0 }, m.canon().tokens()),
            Err(e) => format!("dump-error {}", e),
        },
        ReadOut::CantRead => "cantread".into(),
        ReadOut::Version(v) => format!("version {}", hex(v)),
        ReadOut::Panic(s) => format!("panic {}", s),
        ReadOut::OtherErr(e) => format!("other-err {}", e),
    }
}

pub fn canon_model_answer(ans: &str) -> String {
    if let Some(rest) = ans.strip_prefix("ok ") {
        let (e, toks) = rest.split_at(1);
        match MFsm::parse(toks) {
            Ok(m) => format!("ok {} {}", e, m.canon().tokens()),
            Err(x) => format!("unparsable-model-answer {}", x),
        }
    } else {
        ans.to_string()
    }
}

pub fn readout_kind(s: &str) -> &str {
    s.split(' ').next().unwrap_or("")
}

pub struct Written {
    pub bytes: Vec<u8>,
    pub has_error: bool,
}

pub fn real_write_image(fsm: &Fsm) -> Option<Written> {
    catch_unwind(AssertUnwindSafe(|| {
        let mut w: FsmWriter<Vec<u8>> = FsmWriter::new(Box::new(DefaultProtocolWriter::new(Vec::new())));
        w.write(fsm);
        w.close();
        Written { bytes: w.get_writer().clone(), has_error: w.writer.has_error() }
    }))
    .ok()
}

pub fn build_fsm(c: &FsmCase, big: bool, rep: &mut Report) -> Result<Box<Fsm>, String> {
    let xml = c.xml.clone();
    let r = catch_unwind(AssertUnwindSafe(|| scxml_reader::parse_from_xml(xml)));
    let mut fsm = match r {
        Ok(Ok(f)) => f,
        Ok(Err(e)) => return Err(format!("xml reader error: {}", e)),
        Err(p) => return Err(format!("xml reader panic: {}", panic_text(p))),
    };
    if let Some(seed) = c.augment {
        augment(&mut fsm, seed, big, rep);
    }
    Ok(fsm)
}

fn classify_fsm(orig: &MFsm, panicked: bool) -> String {
    let mut long = false;
    let mut bigv = false;
    orig.visit(&mut |s| long |= s.len() >= 4096, &mut |u| bigv |= u >= P60);
    if panicked {
        if long {
            "C05:fsm:str>=4096:writer-panic".into()
        } else {
            "C05:fsm:writer-panic".into()
        }
    } else if long {
        "C05:fsm:str>=4096:truncated".into()
    } else if bigv {
        "C05:fsm:uint>=2^60".into()
    } else {
        "C05:fsm:other".into()
    }
}

fn first_diff(a: &str, b: &str) -> String {
    let ta: Vec<&str> = a.split(' ').collect();
    let tb: Vec<&str> = b.split(' ').collect();
    for i in 0..ta.len().min(tb.len()) {
        if ta[i] != tb[i] {
            let lo = i.saturating_sub(4);
            return format!(
                "token {}: …{} ≠ …{}",
                i,
                short(&ta[lo..(i + 3).min(ta.len())].join(" ")),
                short(&tb[lo..(i + 3).min(tb.len())].join(" "))
            );
        }
    }
    format!("lengths {} vs {}", ta.len(), tb.len())
}

fn case_json(c: &FsmCase, origin: &str) -> Value {
    json!({"origin": origin, "case": "fsm", "xml": c.xml, "augment": c.augment.map(|x| x.to_string()), "behave": c.behave, "events": c.events})
}

fn trace_filter(t: &[String]) -> Vec<String> {
    t.iter().filter(|l| !l.starts_with("msg ")).cloned().collect()
}

fn dbg(msg: &str) {
    if std::env::var("CODEC_TRACE").is_ok() {
        eprintln!("[codec] {}", msg);
    }
}

pub fn check_fsm(c: &FsmCase, big: bool, model: &mut Model, rep: &mut Report, origin: &str) {
    rep.evaluations += 1;
    dbg(&format!("fsm case {} xml={}", origin, short(&c.xml)));
    let fsm = match build_fsm(c, big, rep) {
        Ok(f) => f,
        Err(e) => {
            rep.count("fsm_generator_rejected");
            rep.disagree(json!({"origin": origin, "what": "generator produced a document the XML reader rejects", "error": e, "xml": short(&c.xml)}));
            return;
        }
    };
    let orig = match MFsm::from_real(&fsm) {
        Ok(m) => m,
        Err(e) => {
            rep.disagree(json!({"origin": origin, "what": "dump", "error": e}));
            return;
        }
    };
    let orig_tokens = orig.tokens();
    rep.nontrivial.insert(format!("F|{:x}", fxhash(orig_tokens.as_bytes())));
    rep.add("fsm_states", orig.states.len() as u64);
    rep.add("fsm_transitions", orig.transitions.len() as u64);
    rep.add("fsm_content_regions", orig.content.len() as u64);
    for (_, l) in &orig.content {
        for e in l {
            rep.count(match e {
                dump::MExec::If(..) => "kind_if",
                dump::MExec::Expression(..) => "kind_expression",
                dump::MExec::Script(..) => "kind_script",
                dump::MExec::Log(..) => "kind_log",
                dump::MExec::ForEach(..) => "kind_foreach",
                dump::MExec::Send(..) => "kind_send",
                dump::MExec::Raise(..) => "kind_raise",
                dump::MExec::Cancel(..) => "kind_cancel",
                dump::MExec::Assign(..) => "kind_assign",
            });
        }
    }
    for s in &orig.states {
        if !s.invoke.is_empty() {
            rep.count("state_with_invoke");
        }
        if s.donedata.is_some() {
            rep.count("state_with_donedata");
        }
        if !s.history.is_empty() {
            rep.count("state_with_history");
        }
        if !s.data.is_empty() {
            rep.count("state_with_data");
        }
        if s.is_parallel {
            rep.count("state_parallel");
        }
        if s.is_final {
            rep.count("state_final");
        }
        if s.history_type != 0 {
            rep.count("state_is_history");
        }
    }
    for t in &orig.transitions {
        if t.cond.is_empty() && t.cond != MData::Null {
            rep.count("transition_cond_empty_not_null");
        }
    }
    dbg("write");
    // ---- write: real vs model
    let w = real_write_image(&fsm);
    let m = model.ask(&format!("codec enc-fsm {}", orig_tokens));
    let impl_s = match &w {
        Some(w) => hex(&w.bytes),
        None => "panic".into(),
    };
    if m != impl_s {
        let d = if m != "panic" && impl_s != "panic" {
            let a = unhex(&m).unwrap_or_default();
            let b = unhex(&impl_s).unwrap_or_default();
            let k = a.iter().zip(b.iter()).position(|(x, y)| x != y).unwrap_or(a.len().min(b.len()));
            format!("first differing byte at {} (model {} bytes, impl {} bytes)", k, a.len(), b.len())
        } else {
            format!("model={} impl={}", short(&m), short(&impl_s))
        };
        let mut j = case_json(c, origin);
        j["what"] = json!("image bytes");
        j["detail"] = json!(d);
        rep.disagree(j);
    }
    let w = match w {
        Some(w) => w,
        None => {
            rep.count("fsm_writer_panics");
            ofail(rep, &classify_fsm(&orig, true), case_json(c, origin));
            return;
        }
    };
    rep.count(&format!("fsm_image_size_class_{}", match w.bytes.len() {
        0..=199 => "<200",
        200..=999 => "200-999",
        1000..=4999 => "1000-4999",
        _ => ">=5000",
    }));
    if w.has_error {
        ofail(rep, "C05:fsm:writer-error-on-vec", case_json(c, origin));
    }
    dbg("read back");
    // ---- read back: real vs model
    let back = real_read_image(&w.bytes);
    let back_s = readout_string(&back);
    let ans = canon_model_answer(&model.ask(&format!("codec dec-fsm {}", hex(&w.bytes))));
    if ans != back_s {
        let mut j = case_json(c, origin);
        j["what"] = json!("re-read model");
        j["detail"] = json!(first_diff(&ans, &back_s));
        rep.disagree(j);
    }
    dbg("oracle");
    // ---- oracle: structure
    let want = format!("ok 0 {}", orig.clone().persisted_view().canon().tokens());
    let mut structural_ok = true;
    if back_s != want {
        structural_ok = false;
        let mut j = case_json(c, origin);
        j["what"] = json!("re-read model differs from the original in a persisted field");
        j["detail"] = json!(first_diff(&want, &back_s));
        ofail(rep, &classify_fsm(&orig, false), j);
    } else {
        rep.count("fsm_roundtrip_structural_ok");
        // the same predicate, decided by the Lean driver on the two dumps
        let a = &want[5..];
        let b = &back_s[5..];
        if a.len() < 60000 {
            let k = a.split(' ').count();
            let o = model.ask(&format!("codec oracle-eq {} {} {}", k, a, b));
            if o != "1" {
                rep.disagree(json!({"origin": origin, "what": "oracle-eq disagrees with the harness comparison", "answer": o}));
            }
        }
    }
    // ---- oracle: behaviour (iii)
    let timeouts = rep.dist.get("behaviour_original_panicked_or_timed_out").cloned().unwrap_or(0);
    if c.behave && structural_ok && timeouts < 3 {
        if let ReadOut::Ok(reloaded, _) = back {
            dbg("behaviour");
            let events: Vec<Event> = c.events.iter().map(|n| Event::new_simple(n)).collect();
            let a = run_session(fsm, &events, ActionWrapper::new(), true, Duration::from_secs(10), true);
            let b = run_session(reloaded, &events, ActionWrapper::new(), true, Duration::from_secs(10), true);
            rep.count("behaviour_runs");
            rep.add("behaviour_trace_lines", a.trace.len() as u64);
            if a.panicked || a.timed_out {
                rep.count("behaviour_original_panicked_or_timed_out");
            }
            if a.trace.iter().any(|l| l.starts_with("int ")) {
                rep.count("behaviour_with_internal_events");
            }
            let (ta, tb) = (trace_filter(&a.trace), trace_filter(&b.trace));
            if ta != tb || a.panicked != b.panicked || a.timed_out != b.timed_out || a.final_configuration != b.final_configuration {
                let k = ta.iter().zip(tb.iter()).position(|(x, y)| x != y).unwrap_or(ta.len().min(tb.len()));
                let mut j = case_json(c, origin);
                j["what"] = json!("trace of the reloaded machine differs");
                j["detail"] = json!({"at": k, "original": ta.get(k), "reloaded": tb.get(k), "panicked": [a.panicked, b.panicked]});
                // the one run-time relevant field the format does not carry: SendParameters.parent_state_name,
                // used for the generated id of <send idlocation=..>
                let has_idlocation = orig.content.iter().any(|(_, l)| l.iter().any(|e| matches!(e, dump::MExec::Send(s) if !s.name_location.is_empty())));
                let sig = if has_idlocation { "C05:behaviour:send-idlocation:parent-state-name-not-persisted" } else { "C05:behaviour:trace-differs" };
                ofail(rep, sig, j);
            } else {
                rep.count("behaviour_traces_equal");
            }
        }
    }
    rep.sample(json!({"xml": short(&c.xml), "image_bytes": w.bytes.len(), "states": orig.states.len(), "transitions": orig.transitions.len()}));
}

pub fn gen_fsm_case(p: &mut Prng, behave: bool, big: bool, rep: &mut Report) -> FsmCase {
    let (xml, counts) = {
        let mut g = gen::DocGen::new(p, behave, big);
        let x = g.document();
        (x, g.counts)
    };
    for (k, v) in counts {
        rep.add(&format!("doc_{}", k), v);
    }
    let events = if behave {
        (0..p.below(8)).map(|_| p.pick(gen::TRIGGERS).to_string()).collect()
    } else {
        vec![]
    };
    let augment = if !behave && p.chance(1, 3) { Some(p.next()) } else { None };
    FsmCase { xml, augment, behave, events }
}

const SX: &str = "<scxml xmlns=\"http://www.w3.org/2005/07/scxml\" version=\"1.0\"";

pub fn fsm_corpus() -> Vec<FsmCase> {
    let mk = |xml: String, behave: bool, ev: &[&str]| FsmCase { xml, augment: None, behave, events: ev.iter().map(|s| s.to_string()).collect() };
    let mut c = Vec::new();
    // the document of serializer::fsm_reader::tests
    c.push(mk(format!("{} initial=\"s0\" datamodel=\"rfsm-expression\"><state id=\"s0\"><transition event=\"go\" target=\"s1\"/></state><state id=\"s1\"><transition event=\"go\" target=\"s2\"/></state><state id=\"s2\"><transition event=\"go\" target=\"end\"/></state><final id=\"end\"><onentry><log expr=\"'Finished!!!'\"/></onentry></final></scxml>", SX), true, &["go", "go", "go"]));
    // P6 at model level: a script of 4096 / 5000 bytes; multi-byte text whose cut falls inside a character
    c.push(mk(format!("{} datamodel=\"null\"><state id=\"s\"><onentry><script>{}</script></onentry></state></scxml>", SX, make_string(4096, "a", 0)), false, &[]));
    c.push(mk(format!("{} datamodel=\"null\"><state id=\"s\"><onentry><log expr=\"{}\"/></onentry></state></scxml>", SX, make_string(5000, "a", 0)), false, &[]));
    c.push(mk(format!("{} datamodel=\"null\"><state id=\"s\"><onentry><script>{}</script></onentry></state></scxml>", SX, make_string(4097, "é", 0)), false, &[]));
    // just below the boundary: must round-trip
    c.push(mk(format!("{} datamodel=\"null\"><state id=\"s\"><onentry><script>{}</script></onentry></state></scxml>", SX, make_string(4095, "é", 1)), false, &[]));
    // P5 at model level: a delay beyond 2^60 ms
    c.push(mk(format!("{} datamodel=\"null\"><state id=\"s\"><onentry><send event=\"e\" delay=\"2000000000000000000ms\"/></onentry></state></scxml>", SX), false, &[]));
    // conditionally stored fields: empty cond, invoke with and without id
    c.push(mk(format!("{} datamodel=\"null\"><state id=\"s\"><transition event=\"e\" cond=\"\" target=\"s\"/><invoke id=\"i1\" type=\"scxml\"><param name=\"a\" expr=\"1\"/><finalize><log expr=\"x\"/></finalize></invoke><invoke idlocation=\"loc\" autoforward=\"true\"><content>text</content></invoke></state></scxml>", SX), false, &[]));
    // send with idlocation: the generated id uses the (unpersisted) parent state name
    c.push(mk(format!("{} datamodel=\"rfsm-expression\"><datamodel><data id=\"v0\" expr=\"''\"/></datamodel><state id=\"s\"><onentry><send event=\"e1\" idlocation=\"v0\"/></onentry><transition event=\"e1\" cond=\"indexOf(v0, 'st.') == 0\" target=\"t\"/></state><state id=\"t\"/></scxml>", SX).replace("<state id=\"s\">", "<state id=\"st\">"), true, &["e1"]));
    c
}

pub fn run_c05(args: &Args, model: &mut Model) -> Report {
    let mut rep = Report::new(
        "c05",
        "three kinds of case: P = a sequence of 1..5 primitive writer calls (uint at every width boundary ±1 and \
         random widths, strings of boundary lengths 0/15/16/4095/4096/4097/70000 in 1-4 byte UTF-8 units, nested Data) \
         written by the real DefaultProtocolWriter and read back by the real DefaultProtocolReader; R = arbitrary / \
         structured-invalid bytes decoded by the real reader (model vs implementation only); F = a generated SCXML \
         document (all state kinds, transitions, the nine content kinds, invoke, donedata, data; optionally augmented \
         programmatically with the Script kind and every Data variant) parsed by the real XML reader, written by the \
         real FsmWriter, re-read by the real FsmReader and, for runnable documents, executed before and after. A case \
         is distinct by the hash of its input (token dump); all need the real code to decide",
    );
    if let Some(path) = &args.replay {
        let v: Value = serde_json::from_str(&std::fs::read_to_string(path).unwrap()).unwrap();
        if v.get("replay_ops").is_some() {
            check_prims(&ops_from_replay(&v["replay_ops"]), model, &mut rep, "replay");
        } else if v.get("xml").is_some() {
            let c = FsmCase {
                xml: v["xml"].as_str().unwrap().to_string(),
                augment: v["augment"].as_str().map(|s| s.parse().unwrap()),
                behave: v["behave"].as_bool().unwrap_or(false),
                events: v["events"].as_array().map(|a| a.iter().map(|x| x.as_str().unwrap().to_string()).collect()).unwrap_or_default(),
            };
            check_fsm(&c, true, model, &mut rep, "replay");
        }
        return rep;
    }
    let only = |k: &str| args.extra.iter().all(|x| !x.starts_with("only=")) || args.extra.iter().any(|x| x == &format!("only={}", k));
    if only("prims") {
        for c in prim_corpus() {
            check_prims(&c, model, &mut rep, "corpus");
        }
    }
    checkpoint(&rep, args, "c05 primitive corpus");
    if only("fsm") {
        for c in fsm_corpus() {
            check_fsm(&c, true, model, &mut rep, "corpus");
        }
    }
    let (mut np, mut nr, mut nf) = if args.thorough { (15000, 15000, 5000) } else { (1200, 1200, 500) };
    if !only("prims") {
        np = 0;
    }
    if !only("raw") {
        nr = 0;
    }
    if !only("fsm") {
        nf = 0;
    }
    checkpoint(&rep, args, "c05 corpus");
    for i in 0..np {
        let mut p = Prng::for_case(args.seed, i);
        let c = gen_prim_case(&mut p);
        check_prims(&c, model, &mut rep, &format!("gen prims seed={} index={}", args.seed, i));
    }
    for i in 0..nr {
        let mut p = Prng::for_case(args.seed ^ 0x5151, i);
        let (b, rops) = gen_raw_case(&mut p);
        check_raw_read(&b, &rops, model, &mut rep, &format!("gen raw seed={} index={}", args.seed, i));
    }
    for i in 0..nf {
        if i % 10 == 0 {
            checkpoint(&rep, args, &format!("c05 generated model {}", i));
        }
        let mut p = Prng::for_case(args.seed ^ 0xF5F5, i);
        let behave = i % 2 == 0;
        let big = !behave && i % 10 == 1;
        let c = gen_fsm_case(&mut p, behave, big, &mut rep);
        check_fsm(&c, big, model, &mut rep, &format!("gen fsm seed={} index={}", args.seed, i));
    }
    rep
}

/// A reader that has lost the stream position (a mutation of the length decoding, say) loops over
/// garbage lengths and allocates without bound; cap the address space so that this ends in an abort of
/// the harness (no report ⇒ the check is red) instead of exhausting the machine.  Best effort.
fn limit_memory() {
    let pid = std::process::id().to_string();
    let _ = std::process::Command::new("prlimit")
        .args(["--pid", &pid, "--as=12884901888"])
        .stdout(std::process::Stdio::null())
        .stderr(std::process::Stdio::null())
        .status();
}

/// Writes what has been found so far, marked as incomplete by a sentinel disagreement.  If the process
/// dies later (abort on the memory cap), `bin/check` still sees the disagreements found before; if it
/// completes, `main` overwrites the file with the real report.
fn checkpoint(rep: &Report, args: &Args, at: &str) {
    let mut j = rep.to_json();
    if let Some(a) = j["disagreements"].as_array_mut() {
        a.push(json!({"what": "harness run did not complete: it died after this checkpoint", "checkpoint": at}));
    }
    let _ = std::fs::write(&args.out, serde_json::to_string(&j).unwrap_or_default());
}

pub fn run(args: &Args, model: &mut Model) -> Report {
    limit_memory();
    // main() silences the panic hook; a panic of the harness itself must not be lost
    let r = catch_unwind(AssertUnwindSafe(|| if args.family == "c18" { run_c18(args, model) } else { run_c05(args, model) }));
    match r {
        Ok(rep) => rep,
        Err(p) => {
            eprintln!("harness panicked: {}", panic_text(p));
            std::process::exit(3);
        }
    }
}

// =====================================================================================
// C18
// =====================================================================================

#[derive(Clone, Debug)]
pub enum Fault {
    /// the call accepts at most k bytes
    Acc(usize),
    Err,
}

/// scripted `std::io::Write`: call `i` (0-based over the whole run) answers by `script[i]`, all
/// other calls accept everything
pub struct Faulty {
    pub out: Vec<u8>,
    pub calls: usize,
    pub script: HashMap<usize, Fault>,
    pub flush_fails: bool,
    /// lengths requested by each call (to classify what a fault hit)
    pub requested: Vec<usize>,
    /// (oracle-only runs) call `i` fails with this error kind
    pub kind_at: Option<(usize, std::io::ErrorKind)>,
}

impl Write for Faulty {
    fn write(&mut self, buf: &[u8]) -> std::io::Result<usize> {
        let i = self.calls;
        self.calls += 1;
        self.requested.push(buf.len());
        if let Some((at, kind)) = self.kind_at {
            if at == i {
                return Err(std::io::Error::new(kind, "injected"));
            }
        }
        match self.script.get(&i) {
            Some(Fault::Acc(k)) => {
                let n = (*k).min(buf.len());
                self.out.extend_from_slice(&buf[..n]);
                Ok(n)
            }
            Some(Fault::Err) => Err(std::io::Error::new(std::io::ErrorKind::Other, "injected")),
            None => {
                self.out.extend_from_slice(buf);
                Ok(buf.len())
            }
        }
    }
    fn flush(&mut self) -> std::io::Result<()> {
        if self.flush_fails {
            Err(std::io::Error::new(std::io::ErrorKind::Other, "injected flush"))
        } else {
            Ok(())
        }
    }
}

fn script_string(script: &[(usize, Fault)]) -> String {
    if script.is_empty() {
        ".".to_string()
    } else {
        script
            .iter()
            .map(|(i, f)| match f {
                Fault::Acc(k) => format!("{}:a{}", i, k),
                Fault::Err => format!("{}:e", i),
            })
            .collect::<Vec<_>>()
            .join(",")
    }
}

pub struct SinkRun {
    pub panicked: bool,
    pub out: Vec<u8>,
    pub has_error: bool,
    pub calls: usize,
    pub requested: Vec<usize>,
}

impl SinkRun {
    fn line(&self) -> String {
        format!("{} {} {} {}", if self.panicked { "panic" } else { "done" }, hex(&self.out), if self.has_error { 0 } else { 1 }, self.calls)
    }
}

fn faulty(script: &[(usize, Fault)], flush_fails: bool) -> Faulty {
    Faulty { out: vec![], calls: 0, script: script.iter().cloned().collect(), flush_fails, requested: vec![], kind_at: None }
}

/// the real FsmWriter (write + close) over a scripted sink
pub fn real_sink_fsm(fsm: &Fsm, script: &[(usize, Fault)], flush_fails: bool) -> SinkRun {
    let mut w: FsmWriter<Faulty> = FsmWriter::new(Box::new(DefaultProtocolWriter::new(faulty(script, flush_fails))));
    let r = catch_unwind(AssertUnwindSafe(|| {
        w.write(fsm);
        w.close();
    }));
    let f = w.get_writer();
    SinkRun { panicked: r.is_err(), out: f.out.clone(), has_error: w.writer.has_error(), calls: f.calls, requested: f.requested.clone() }
}

pub fn real_sink_prims(ops: &[(WOp, Option<Data>)], script: &[(usize, Fault)], flush_fails: bool) -> SinkRun {
    let mut w = DefaultProtocolWriter::new(faulty(script, flush_fails));
    let r = catch_unwind(AssertUnwindSafe(|| {
        real_write(&mut w, ops);
    }));
    SinkRun { panicked: r.is_err(), out: w.writer.out.clone(), has_error: w.has_error(), calls: w.writer.calls, requested: w.writer.requested.clone() }
}

/// the oracle for one faulty run, given the complete image
fn sink_oracle(run: &SinkRun, full: &[u8], script: &[(usize, Fault)], flush_fails: bool, rep: &mut Report, ctx: Value) {
    if run.panicked {
        // the writer has no panic site since `write_str` stopped slicing its argument
        ofail(rep, "C18:write:writer-panic", ctx);
        return;
    }
    let mut failing_reached = false;
    let mut short_reached = false;
    for (i, f) in script {
        if *i < run.calls {
            let req = run.requested[*i];
            match f {
                Fault::Err => failing_reached = true,
                // fewer bytes than offered, without an error (k = 0 included: `write_all` turns that
                // into an error, a plain `write` does not)
                Fault::Acc(k) if *k < req => short_reached = true,
                _ => {}
            }
        }
    }
    if flush_fails && !run.has_error {
        ofail(rep, "C18:write:flush-error-not-visible", ctx.clone());
    }
    if failing_reached {
        rep.count("sink_failing_call_reached");
        if !run.has_error {
            ofail(rep, "C18:write:error-not-visible", ctx.clone());
        }
    }
    if short_reached && !failing_reached {
        rep.count("sink_short_call_reached");
        if run.out == full {
            rep.count("sink_short_call_complete_image");
        } else if run.has_error {
            rep.count("sink_short_call_reported_as_error");
        } else {
            ofail(rep, "C18:write:short-write-loses-data:silent", ctx);
        }
    }
}

/// at most a few replayable examples per signature (the report keeps the first 200 overall), all counted
fn ofail(rep: &mut Report, sig: &str, v: Value) {
    let key = format!("oracle_fail[{}]", sig);
    let n = rep.dist.get(&key).cloned().unwrap_or(0);
    rep.count(&key);
    if n < 6 {
        rep.oracle_fail(sig, v);
    } else {
        rep.count("oracle_failures");
    }
}

fn script_json(script: &[(usize, Fault)]) -> Value {
    json!(script_string(script))
}

fn parse_script(s: &str) -> Vec<(usize, Fault)> {
    if s == "." {
        return vec![];
    }
    s.split(',')
        .map(|e| {
            let (i, r) = e.split_once(':').unwrap();
            (i.parse().unwrap(), if r == "e" { Fault::Err } else { Fault::Acc(r[1..].parse().unwrap()) })
        })
        .collect()
}

pub fn check_sink_prims(ops: &[WOp], script: &[(usize, Fault)], flush: bool, model: &mut Model, rep: &mut Report, origin: &str) {
    rep.evaluations += 1;
    rep.count("sink_prim_cases");
    let rops = realise(ops);
    let run = real_sink_prims(&rops, script, flush);
    let m = model.ask(&format!("codec sink {} {} {}", script_string(script), if flush { 1 } else { 0 }, wops_tokens(&rops)));
    rep.nontrivial.insert(format!("SP|{:x}|{}", fxhash(wops_tokens(&rops).as_bytes()), script_string(script)));
    if m != run.line() {
        rep.disagree(json!({"origin": origin, "what": "sink prims", "script": script_json(script), "ops": ops_json(ops), "impl": short(&run.line()), "model": short(&m), "replay_ops": ops_replay(ops)}));
    }
    let full = catch_unwind(AssertUnwindSafe(|| {
        let mut w = DefaultProtocolWriter::new(Vec::new());
        real_write(&mut w, &rops);
        w.writer.clone()
    }));
    if let Ok(full) = full {
        sink_oracle(&run, &full, script, false, rep, json!({"origin": origin, "case": "sink-prims", "script": script_json(script), "replay_ops": ops_replay(ops)}));
    }
}

fn prefix_signature(kind: &str, full: &str) -> Option<String> {
    match kind {
        "cantread" | "version" => None,
        "panic" => {
            if full.starts_with("panic binding:") {
                Some("C18:read:prefix:panic:binding-ordinal".into())
            } else {
                Some(format!("C18:read:prefix:panic:{}", full.split(' ').nth(1).unwrap_or("?").split(':').next().unwrap_or("?")))
            }
        }
        "ok" => {
            if full.starts_with("ok 1") {
                Some("C18:read:prefix:ok-partial-model".into())
            } else {
                Some("C18:read:prefix:ok-without-error-flag".into())
            }
        }
        _ => Some(format!("C18:read:prefix:{}", kind)),
    }
}

pub fn check_c18_fsm(c: &FsmCase, thorough: bool, p: &mut Prng, model: &mut Model, rep: &mut Report, origin: &str) {
    dbg(&format!("c18 case {} xml={}", origin, short(&c.xml)));
    let fsm = match build_fsm(c, false, rep) {
        Ok(f) => f,
        Err(e) => {
            rep.disagree(json!({"origin": origin, "what": "generator produced a document the XML reader rejects", "error": e, "xml": short(&c.xml)}));
            return;
        }
    };
    let orig = match MFsm::from_real(&fsm) {
        Ok(m) => m,
        Err(e) => {
            rep.disagree(json!({"origin": origin, "what": "dump", "error": e}));
            return;
        }
    };
    let tokens = orig.tokens();
    let w = match real_write_image(&fsm) {
        Some(w) => w,
        None => {
            rep.count("c18_skipped_writer_panics");
            return;
        }
    };
    let img = w.bytes;
    rep.add("image_bytes_total", img.len() as u64);
    // -------- (iv-a) prefixes
    let bounds: Vec<usize> = model
        .ask(&format!("codec bounds-fsm {}", tokens))
        .split(',')
        .filter_map(|x| x.parse::<usize>().ok())
        .collect();
    if bounds.last() != Some(&img.len()) {
        rep.disagree(json!({"origin": origin, "what": "model image length differs", "impl_len": img.len(), "model_last_bound": bounds.last()}));
    }
    let all_limit = if thorough { 2500 } else { 420 };
    let mut cuts: Vec<usize> = Vec::new();
    if img.len() <= all_limit {
        cuts.extend(0..img.len());
        rep.count("prefix_images_all_cuts");
    } else {
        rep.count("prefix_images_sampled_cuts");
        cuts.extend(0..40.min(img.len()));
        cuts.extend(img.len().saturating_sub(24)..img.len());
        let nb = if thorough { 400 } else { 60 };
        for _ in 0..nb {
            let b = *p.pick(&bounds);
            for d in [-1i64, 0, 1] {
                let n = b as i64 + d;
                if n >= 0 && (n as usize) < img.len() {
                    cuts.push(n as usize);
                }
            }
        }
        for _ in 0..nb {
            cuts.push(p.below(img.len() as u64) as usize);
        }
        cuts.sort();
        cuts.dedup();
    }
    for n in cuts {
        rep.evaluations += 1;
        dbg(&format!("cut {} of {}", n, img.len()));
        let pre = &img[..n];
        let r = real_read_image(pre);
        let rs = readout_string(&r);
        let ms = canon_model_answer(&model.ask(&format!("codec dec-fsm {}", hex(pre))));
        let kind = readout_kind(&rs).to_string();
        rep.count(&format!("prefix_result_{}", kind));
        rep.nontrivial.insert(format!("X|{:x}|{}", fxhash(&img), n));
        if rs != ms {
            let mut j = case_json(c, origin);
            j["what"] = json!("prefix read");
            j["cut"] = json!(n);
            j["detail"] = json!(first_diff(&ms, &rs));
            rep.disagree(j);
        }
        let o = model.ask(&format!("codec oracle-prefix {}", kind));
        if let Some(sig) = prefix_signature(&kind, &rs) {
            if o != "0" {
                rep.disagree(json!({"origin": origin, "what": "oracle-prefix disagrees", "kind": kind, "answer": o}));
            }
            let mut j = case_json(c, origin);
            j["case"] = json!("prefix");
            j["cut"] = json!(n);
            j["image_len"] = json!(img.len());
            j["result"] = json!(short(&rs));
            ofail(rep, &sig, j);
        } else if o != "1" {
            rep.disagree(json!({"origin": origin, "what": "oracle-prefix disagrees", "kind": kind, "answer": o}));
        }
    }
    // the complete image must read without error
    {
        rep.evaluations += 1;
        let rs = readout_string(&real_read_image(&img));
        if !rs.starts_with("ok 0") {
            let mut j = case_json(c, origin);
            j["case"] = json!("full-image");
            j["result"] = json!(short(&rs));
            ofail(rep, "C18:read:full-image-not-ok", j);
        }
    }
    // -------- (iv-b) scripted sinks (every request carries the whole model: small models only)
    if tokens.len() > 24000 {
        rep.count("sink_skipped_large_model");
        return;
    }
    let oc = model.ask(&format!("codec ops-fsm {}", tokens));
    let calls: usize = oc.split(' ').nth(1).and_then(|x| x.parse().ok()).unwrap_or(0);
    let probe = real_sink_fsm(&fsm, &[], false);
    if probe.calls != calls || probe.out != img {
        rep.disagree(json!({"origin": origin, "what": "ideal sink", "impl_calls": probe.calls, "model": oc}));
    }
    let mut scripts: Vec<(Vec<(usize, Fault)>, bool)> = Vec::new();
    let positions: Vec<usize> = if calls <= (if thorough { 1200 } else { 160 }) {
        (0..calls).collect()
    } else {
        let mut v: Vec<usize> = (0..20).collect();
        for _ in 0..(if thorough { 300 } else { 50 }) {
            v.push(p.below(calls as u64) as usize);
        }
        // the multi-byte (payload) calls are where a short write matters
        let multi: Vec<usize> = probe.requested.iter().enumerate().filter(|(_, l)| **l > 1).map(|(i, _)| i).collect();
        for _ in 0..(if thorough { 200 } else { 40 }) {
            if !multi.is_empty() {
                v.push(*p.pick(&multi));
            }
        }
        v.sort();
        v.dedup();
        v
    };
    for i in positions {
        scripts.push((vec![(i, Fault::Err)], false));
        let req = probe.requested.get(i).cloned().unwrap_or(1);
        if req > 1 {
            scripts.push((vec![(i, Fault::Acc(p.range(1, req as u64 - 1) as usize))], false));
            scripts.push((vec![(i, Fault::Acc(0))], false));
            rep.count("sink_positions_payload");
        } else if req == 1 {
            scripts.push((vec![(i, Fault::Acc(0))], false));
            rep.count("sink_positions_single_byte");
        } else {
            scripts.push((vec![(i, Fault::Acc(0))], false));
            rep.count("sink_positions_empty_payload");
        }
        if p.chance(1, 8) && calls > 1 {
            let j = p.below(calls as u64) as usize;
            if j != i {
                scripts.push((vec![(i, Fault::Acc(1)), (j, Fault::Err)], p.chance(1, 2)));
            }
        }
    }
    scripts.push((vec![], true));
    for (script, flush) in scripts {
        rep.evaluations += 1;
        dbg(&format!("sink script {}", script_string(&script)));
        rep.count("sink_fsm_cases");
        let run = real_sink_fsm(&fsm, &script, flush);
        let m = model.ask(&format!("codec sink-fsm {} {} {}", script_string(&script), if flush { 1 } else { 0 }, tokens));
        rep.nontrivial.insert(format!("SF|{:x}|{}|{}", fxhash(&img), script_string(&script), flush));
        if m != run.line() {
            let mut j = case_json(c, origin);
            j["what"] = json!("sink fsm");
            j["script"] = script_json(&script);
            j["impl"] = json!(short(&run.line()));
            j["model"] = json!(short(&m));
            rep.disagree(j);
        }
        let mut j = case_json(c, origin);
        j["case"] = json!("sink-fsm");
        j["script"] = script_json(&script);
        j["flush_fails"] = json!(flush);
        sink_oracle(&run, &img, &script, flush, rep, j);
    }
    // every KIND of error counts: whatever error a payload call returns, the writer must end in its
    // error state.  One exception since the payload goes through `write_all` (round 2): std repeats a
    // call that was `Interrupted`, as it always did for the single-byte writes — then nothing is lost
    // and the complete image must arrive instead
    // (oracle only: the Lean sink model has one kind of failure)
    let payload_calls: Vec<usize> = probe.requested.iter().enumerate().filter(|(_, l)| **l > 1).map(|(i, _)| i).collect();
    for (n, i) in payload_calls.iter().enumerate() {
        if n >= (if thorough { 200 } else { 12 }) {
            break;
        }
        for kind in [std::io::ErrorKind::Interrupted, std::io::ErrorKind::WouldBlock, std::io::ErrorKind::TimedOut, std::io::ErrorKind::BrokenPipe] {
            rep.evaluations += 1;
            rep.count("sink_error_kind_cases");
            let mut f = faulty(&[], false);
            f.kind_at = Some((*i, kind));
            let mut w: FsmWriter<Faulty> = FsmWriter::new(Box::new(DefaultProtocolWriter::new(f)));
            let r = catch_unwind(AssertUnwindSafe(|| {
                w.write(&fsm);
                w.close();
            }));
            if r.is_err() {
                continue;
            }
            let retried = kind == std::io::ErrorKind::Interrupted && w.writer.get_writer().out == img;
            if retried {
                rep.count("sink_interrupted_call_repeated_complete_image");
            }
            if !w.writer.has_error() && !retried {
                let mut j = case_json(c, origin);
                j["case"] = json!("sink-error-kind");
                j["call"] = json!(i);
                j["error_kind"] = json!(format!("{:?}", kind));
                ofail(rep, &format!("C18:write:error-not-visible:{:?}", kind), j);
            }
        }
    }
    rep.sample(json!({"xml": short(&c.xml), "image_bytes": img.len(), "sink_calls": calls}));
}

pub fn run_c18(args: &Args, model: &mut Model) -> Report {
    let mut rep = Report::new(
        "c18",
        "X = (image, cut): an image written by the real FsmWriter from a generated document, cut at byte n (every n for \
         small images, otherwise the first 40, the last 24, primitive-call boundaries ±1 and random positions) and read \
         by the real FsmReader under catch_unwind; SF = (model, sink script): the real FsmWriter run against a scripted \
         std::io::Write that fails / accepts k bytes at write call i (every i for small models; error, short and \
         zero-length answers, double faults, failing flush); SP = the same for sequences of primitive writer calls. \
         Distinct by (image hash, cut) resp. (input hash, script); all need the real code to decide",
    );
    if let Some(path) = &args.replay {
        let v: Value = serde_json::from_str(&std::fs::read_to_string(path).unwrap()).unwrap();
        if v.get("replay_ops").is_some() {
            let script = parse_script(v["script"].as_str().unwrap_or("."));
            check_sink_prims(&ops_from_replay(&v["replay_ops"]), &script, false, model, &mut rep, "replay");
        } else if v.get("xml").is_some() {
            let c = FsmCase {
                xml: v["xml"].as_str().unwrap().to_string(),
                augment: v["augment"].as_str().map(|s| s.parse().unwrap()),
                behave: false,
                events: vec![],
            };
            let mut p = Prng::new(1);
            check_c18_fsm(&c, true, &mut p, model, &mut rep, "replay");
        }
        return rep;
    }
    // corpus: the witnesses of the Lean counterexample theorems
    let mk = |xml: String| FsmCase { xml, augment: None, behave: false, events: vec![] };
    let corpus = vec![
        // C18_read_counterexample_*: the smallest model; cut after the version string panics, a later cut is Ok
        mk(format!("{} datamodel=\"null\"><state id=\"s\"/></scxml>", SX)),
        // C18_short_counterexample: a name of two bytes, sink accepting one byte per call
        mk(format!("{} datamodel=\"null\" name=\"ab\"><state id=\"s\"><transition event=\"go\" target=\"s\"/></state></scxml>", SX)),
        mk(format!("{} initial=\"s0\" datamodel=\"ecmascript\"><state id=\"s0\"><transition event=\"go\" target=\"end\"/></state><final id=\"end\"><onentry><log expr=\"'Finished!!!'\"/></onentry></final></scxml>", SX)),
    ];
    for c in &corpus {
        let mut p = Prng::new(7);
        check_c18_fsm(c, true, &mut p, model, &mut rep, "corpus");
    }
    check_sink_prims(&[WOp::S("ab".into())], &[(1, Fault::Acc(1))], false, model, &mut rep, "corpus");
    check_sink_prims(&[WOp::S("ab".into()), WOp::U(1)], &[(0, Fault::Err)], false, model, &mut rep, "corpus");
    check_sink_prims(&[WOp::U(300), WOp::B(true)], &[(1, Fault::Acc(0))], false, model, &mut rep, "corpus");
    let (nf, np) = if args.thorough { (65, 6000) } else { (26, 500) };
    for i in 0..nf {
        checkpoint(&rep, args, &format!("c18 generated model {}", i));
        let mut p = Prng::for_case(args.seed ^ 0xC18, i);
        let c = {
            let (xml, counts) = {
                let mut g = gen::DocGen::new(&mut p, false, false);
                g.small = i % 4 != 3;
                let x = g.document();
                (x, g.counts)
            };
            for (k, v) in counts {
                rep.add(&format!("doc_{}", k), v);
            }
            FsmCase { xml, augment: if p.chance(1, 4) { Some(p.next()) } else { None }, behave: false, events: vec![] }
        };
        check_c18_fsm(&c, args.thorough, &mut p, model, &mut rep, &format!("gen c18 seed={} index={}", args.seed, i));
    }
    for i in 0..np {
        let mut p = Prng::for_case(args.seed ^ 0x51C8, i);
        let ops: Vec<WOp> = gen_prim_case(&mut p)
            .into_iter()
            .map(|o| match o {
                // long strings (type 0xE0) go through the faulty sinks too, but not the very long ones:
                // a fault is placed at every call of the run
                WOp::S(s) if s.len() > 8200 => WOp::S(make_string(s.len() % 4096 + 4096, "a", 0)),
                WOp::O(Some(s)) if s.len() > 8200 => WOp::O(Some(make_string(s.len() % 4096 + 4096, "é", 1))),
                WOp::D(_) => WOp::D(gen_data(&mut p, 1, false)),
                o => o,
            })
            .collect();
        let rops = realise(&ops);
        let probe = real_sink_prims(&rops, &[], false);
        let calls = probe.calls.max(1);
        let n = p.range(1, 2);
        let mut script = Vec::new();
        for _ in 0..n {
            let i = p.below(calls as u64) as usize;
            let req = probe.requested.get(i).cloned().unwrap_or(1);
            let f = match p.below(3) {
                0 => Fault::Err,
                1 => Fault::Acc(0),
                _ => Fault::Acc(if req > 1 { p.range(1, req as u64 - 1) as usize } else { 1 }),
            };
            if !script.iter().any(|(j, _): &(usize, Fault)| *j == i) {
                script.push((i, f));
            }
        }
        check_sink_prims(&ops, &script, false, model, &mut rep, &format!("gen sink-prims seed={} index={}", args.seed, i));
    }
    rep
}
