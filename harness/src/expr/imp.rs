//! Running the real expression engine: store construction, watchdog'ed evaluation, canonical
//! dumps, error-text → error-kind mapping.  Everything here observes `/repo` through public API:
//! `ExpressionParser::{parse, execute}`, `RFsmExpressionDatamodel` (via the `Datamodel` trait),
//! `Data`, `DataArc`, `GlobalData.data.map`.
use crate::proto::hexs;
use rufsm::datamodel::expression_engine::RFsmExpressionDatamodel;
use rufsm::datamodel::{create_data_arc, create_global_data_arc, Data, DataArc, Datamodel, GlobalDataArc, SourceCode};
use rufsm::expression_engine::expressions::{
    get_expression_as, Expression, ExpressionArray, ExpressionAssign, ExpressionAssignUndefined, ExpressionConstant,
    ExpressionIndex, ExpressionMap, ExpressionMemberAccess, ExpressionMethod, ExpressionNot, ExpressionOperator,
    ExpressionSequence, ExpressionVariable,
};
use rufsm::expression_engine::lexer::{ExpressionLexer, NumericToken, Token};
use rufsm::expression_engine::parser::ExpressionParser;
use serde_json::{json, Value};
use std::collections::HashMap;
use std::ops::Deref;
use std::panic::{catch_unwind, AssertUnwindSafe};
use std::sync::mpsc;
use std::sync::{Arc, TryLockError};
use std::time::Duration;

// ---------------------------------------------------------------------------------------------
// store descriptions

#[derive(Clone, Debug, PartialEq)]
pub struct RefD {
    pub id: usize,
    pub ro: bool,
}

#[derive(Clone, Debug, PartialEq)]
pub enum CellD {
    Int(i64),
    Dbl(u64),
    Str(String),
    Bool(bool),
    Null,
    None,
    Error(String),
    Source(usize, String),
    Array(Vec<RefD>),
    Map(Vec<(String, RefD)>),
}

#[derive(Clone, Debug, Default, PartialEq)]
pub struct StoreD {
    pub cells: Vec<CellD>,
    pub vars: Vec<(String, RefD)>,
}

fn ref_wire(r: &RefD) -> String {
    format!("{}{}", r.id, if r.ro { "r" } else { "" })
}

impl StoreD {
    /// the `<cells> <vars>` words of the driver's `expr run`
    pub fn wire(&self) -> String {
        let cells = if self.cells.is_empty() {
            ".".to_string()
        } else {
            self.cells
                .iter()
                .map(|c| match c {
                    CellD::Int(i) => format!("i{}", i),
                    CellD::Dbl(b) => format!("d{:016x}", b),
                    CellD::Str(s) => format!("s{}", hexs(s)),
                    CellD::Bool(b) => format!("b{}", if *b { 1 } else { 0 }),
                    CellD::Null => "n".to_string(),
                    CellD::None => "N".to_string(),
                    CellD::Error(s) => format!("e{}", hexs(s)),
                    CellD::Source(id, s) => format!("S{}.{}", id, hexs(s)),
                    CellD::Array(a) => format!("a{}", a.iter().map(ref_wire).collect::<Vec<_>>().join(",")),
                    CellD::Map(m) => format!(
                        "m{}",
                        m.iter().map(|(k, r)| format!("{}={}", hexs(k), ref_wire(r))).collect::<Vec<_>>().join(",")
                    ),
                })
                .collect::<Vec<_>>()
                .join(";")
        };
        let vars = if self.vars.is_empty() {
            ".".to_string()
        } else {
            self.vars.iter().map(|(k, r)| format!("{}={}", hexs(k), ref_wire(r))).collect::<Vec<_>>().join(",")
        };
        format!("{} {}", cells, vars)
    }

    pub fn to_json(&self) -> Value {
        json!({
            "cells": self.cells.iter().map(|c| match c {
                CellD::Int(i) => json!({"int": i.to_string()}),
                CellD::Dbl(b) => json!({"dbl": format!("{:016x}", b)}),
                CellD::Str(s) => json!({"str": s}),
                CellD::Bool(b) => json!({"bool": b}),
                CellD::Null => json!("null"),
                CellD::None => json!("none"),
                CellD::Error(s) => json!({"error": s}),
                CellD::Source(id, s) => json!({"source": s, "id": id}),
                CellD::Array(a) => json!({"array": a.iter().map(ref_wire).collect::<Vec<_>>()}),
                CellD::Map(m) => json!({"map": m.iter().map(|(k, r)| json!([k, ref_wire(r)])).collect::<Vec<_>>()}),
            }).collect::<Vec<_>>(),
            "vars": self.vars.iter().map(|(k, r)| json!([k, ref_wire(r)])).collect::<Vec<_>>(),
        })
    }

    pub fn from_json(v: &Value) -> Option<StoreD> {
        fn rf(s: &str) -> Option<RefD> {
            if let Some(x) = s.strip_suffix('r') {
                Some(RefD { id: x.parse().ok()?, ro: true })
            } else {
                Some(RefD { id: s.parse().ok()?, ro: false })
            }
        }
        let mut st = StoreD::default();
        for c in v.get("cells")?.as_array()? {
            let cell = if c == "null" {
                CellD::Null
            } else if c == "none" {
                CellD::None
            } else if let Some(x) = c.get("int") {
                CellD::Int(x.as_str()?.parse().ok()?)
            } else if let Some(x) = c.get("dbl") {
                CellD::Dbl(u64::from_str_radix(x.as_str()?, 16).ok()?)
            } else if let Some(x) = c.get("str") {
                CellD::Str(x.as_str()?.to_string())
            } else if let Some(x) = c.get("bool") {
                CellD::Bool(x.as_bool()?)
            } else if let Some(x) = c.get("error") {
                CellD::Error(x.as_str()?.to_string())
            } else if let Some(x) = c.get("source") {
                CellD::Source(c.get("id")?.as_u64()? as usize, x.as_str()?.to_string())
            } else if let Some(x) = c.get("array") {
                CellD::Array(x.as_array()?.iter().map(|r| rf(r.as_str()?)).collect::<Option<Vec<_>>>()?)
            } else if let Some(x) = c.get("map") {
                CellD::Map(
                    x.as_array()?
                        .iter()
                        .map(|kv| Some((kv.get(0)?.as_str()?.to_string(), rf(kv.get(1)?.as_str()?)?)))
                        .collect::<Option<Vec<_>>>()?,
                )
            } else {
                return None;
            };
            st.cells.push(cell);
        }
        for kv in v.get("vars")?.as_array()? {
            st.vars.push((kv.get(0)?.as_str()?.to_string(), rf(kv.get(1)?.as_str()?)?));
        }
        Some(st)
    }

    /// builds the real store: one `Arc<Mutex<Data>>` per cell, handles carry the read-only flag
    pub fn build(&self) -> (GlobalDataArc, Vec<DataArc>) {
        let arcs: Vec<DataArc> = self.cells.iter().map(|_| create_data_arc(Data::None())).collect();
        let handle = |r: &RefD| -> DataArc {
            let mut h = arcs[r.id].clone();
            h.set_readonly(r.ro);
            h
        };
        for (i, c) in self.cells.iter().enumerate() {
            let d = match c {
                CellD::Int(v) => Data::Integer(*v),
                CellD::Dbl(b) => Data::Double(f64::from_bits(*b)),
                CellD::Str(s) => Data::String(s.clone()),
                CellD::Bool(b) => Data::Boolean(*b),
                CellD::Null => Data::Null(),
                CellD::None => Data::None(),
                CellD::Error(s) => Data::Error(s.clone()),
                CellD::Source(id, s) => Data::Source(SourceCode::new(s, *id)),
                CellD::Array(a) => Data::Array(a.iter().map(handle).collect()),
                CellD::Map(m) => {
                    let mut h = HashMap::new();
                    for (k, r) in m {
                        h.insert(k.clone(), handle(r));
                    }
                    Data::Map(h)
                }
            };
            *arcs[i].lock().unwrap() = d;
        }
        let gd = create_global_data_arc();
        {
            let mut g = gd.lock().unwrap();
            RFsmExpressionDatamodel::add_internal_functions_to_wrapper(&mut g.actions);
            for (k, r) in &self.vars {
                g.data.map.insert(k.clone(), handle(r));
            }
        }
        (gd, arcs)
    }
}

// ---------------------------------------------------------------------------------------------
// error kinds (mirror of `evErrName` / `pErrName` / `lexErrName` in lean/Driver/Expr.lean)

fn op_debug_name(s: &str) -> Option<&str> {
    const NAMES: &[&str] = &[
        "Multiply", "Divide", "Plus", "Minus", "LessEqual", "Less", "GreaterEqual", "Greater", "AssignUndefined",
        "Assign", "Equal", "NotEqual", "And", "Or", "Modulus", "Not",
    ];
    NAMES.iter().find(|n| s == **n).copied()
}

fn op_char_name(c: &str) -> &'static str {
    match c {
        "+" => "Plus",
        "-" => "Minus",
        "*" => "Multiply",
        "/" => "Divide",
        "%" => "Modulus",
        "&" => "And",
        "|" => "Or",
        _ => "?",
    }
}

fn quoted_char(s: &str, prefix: &str) -> Option<u32> {
    let r = s.strip_prefix(prefix)?;
    let r = r.strip_suffix('\'')?;
    let mut it = r.chars();
    let c = it.next()?;
    if it.next().is_some() {
        return None;
    }
    Some(c as u32)
}

/// maps an error text of the engine to the kind string the model prints; unknown texts come
/// back as `unknown:<text>` so that they show up as disagreements
pub fn err_kind(t: &str) -> String {
    // parser / lexer
    let p = |s: &str| format!("p:{}", s);
    match t {
        "Missing string delimiter" => return p("lex:missingStringDelimiter"),
        "Illegal \\u sequence in String" => return p("lex:illegalUSequence"),
        "Illegal escape sequence in String" => return p("lex:illegalEscape"),
        "Internal Error" => return p("lex:internalError"),
        "number too large to fit in target type" | "number too small to fit in target type" => {
            return p("lex:intParse")
        }
        "invalid float literal" => return p("lex:floatParse"),
        "missing exponent in number" => return p("lex:missingExponent"),
        "internal error" => return p("lex:internalNumber"),
        "index operator '[]' allows only one argument" => return p("indexArgCount"),
        "Failed to evaluate expression" => return p("failedEvaluate"),
        "Failed to parse" => return p("failedParse"),
        "Failed to parse at '.'" => return p("failedAtSep"),
        "Error in member list" => return p("memberListError"),
        "Missing value expression in member list" => return p("missingValue"),
        "Error in argument list" => return p("argListError"),
        "locked" => return "locked".to_string(),
        "Can't assign to that" => return "cantAssignTo".to_string(),
        "'!' can only be applied on boolean expressions." => return "notNonBoolean".to_string(),
        "Result of '/' is NaN" => return "divideNaN".to_string(),
        "Result of '%' is undefined (division by zero)" => return "remUndefined".to_string(),
        "'>' supports only numeric or string types" => return "greaterUnsupported".to_string(),
        "Illegal Result: Can't return array" => return "illegalResultArray".to_string(),
        "Illegal Result: Can't return maps" => return "illegalResultMap".to_string(),
        "Illegal argument type for 'In'" => return "actionType:In".to_string(),
        "Wrong arguments for 'In'." => return "actionArgs:In".to_string(),
        "Wrong number of arguments for 'toString'." => return "actionArgs:toString".to_string(),
        "Illegal argument types for 'indexOf'" => return "actionType:indexOf".to_string(),
        "Wrong arguments for 'indexOf'." => return "actionArgs:indexOf".to_string(),
        "Wrong argument type for 'length'." => return "actionType:length".to_string(),
        "Wrong number of arguments for 'length'." => return "actionArgs:length".to_string(),
        "Wrong argument type for 'abs'." => return "actionType:abs".to_string(),
        "Wrong number of arguments for 'abs'." => return "actionArgs:abs".to_string(),
        "Wrong number of arguments for 'isDefined'." => return "actionArgs:isDefined".to_string(),
        "Wrong number of arguments for 'log'." => return "actionArgs:log".to_string(),
        _ => {}
    }
    if let Some(c) = quoted_char(t, "Unexpected '") {
        return p(&format!("unexpected:{}", c));
    }
    if let Some(c) = quoted_char(t, "Internal Error at '") {
        return p(&format!("internalAt:{}", c));
    }
    if let Some(c) = quoted_char(t, "Missing '") {
        return p(&format!("missing:{}", c));
    }
    if let Some(r) = t.strip_prefix("Failed to parse at operator '") {
        if let Some(n) = r.strip_suffix('\'').and_then(op_debug_name) {
            return p(&format!("failedAtOperator:{}", n));
        }
    }
    if t.starts_with("Failed to parse at '") {
        return p("failedAtItem");
    }
    if let Some(r) = t.strip_prefix("Variable '") {
        if let Some(n) = r.strip_suffix("' not found") {
            return format!("varNotFound:{}", hexs(n));
        }
    }
    if t.starts_with("Can't apply index on '") {
        return "cantIndex".to_string();
    }
    if let Some(r) = t.strip_prefix("Index '") {
        if let Some(n) = r.strip_suffix("' not found") {
            return format!("indexNotFound:{}", hexs(n));
        }
    }
    if t.starts_with("Index not found: ") {
        return "indexOutOfRange".to_string();
    }
    if t.starts_with("Illegal index type '") {
        return "illegalIndexType".to_string();
    }
    if t.starts_with("Value '") && t.ends_with("' has no members") {
        return "noMembers".to_string();
    }
    if let Some(r) = t.strip_prefix("Member ") {
        if let Some(n) = r.strip_suffix(" not found") {
            return format!("memberNotFound:{}", hexs(n));
        }
    }
    if t.starts_with("Can't set read-only ") {
        return "readOnly".to_string();
    }
    if t.starts_with("Can't assign from '") {
        return "cantAssignFrom".to_string();
    }
    if t.starts_with("Can't assign to ") {
        return "cantAssignTo".to_string();
    }
    if let Some(r) = t.strip_prefix("Action '") {
        if let Some(n) = r.strip_suffix("' not found") {
            return format!("actionNotFound:{}", hexs(n));
        }
    }
    if let Some(r) = t.strip_prefix("Internal Error in '") {
        if let Some(o) = r.strip_suffix("' operation") {
            return format!("opInternal:{}", op_char_name(o));
        }
    }
    if let Some(r) = t.strip_prefix("Wrong argument types for '") {
        if let Some(o) = r.strip_suffix('\'') {
            return format!("opWrongTypes:{}", op_char_name(o));
        }
    }
    format!("text:{}", hexs(t))
}

/// `Script Error: <src> => <inner>` / `Script Error:  <src> => <inner> ` (two texts in the code)
pub fn script_err_kind(t: &str, src: &str) -> String {
    let a = format!("Script Error: {} => ", src);
    let b = format!("Script Error:  {} => ", src);
    if let Some(inner) = t.strip_prefix(&b) {
        let inner = inner.strip_suffix(' ').unwrap_or(inner);
        return format!("script:{}", err_kind(inner));
    }
    if let Some(inner) = t.strip_prefix(&a) {
        return format!("script:{}", err_kind(inner));
    }
    err_kind(t)
}

pub fn panic_site(msg: &str) -> String {
    if msg.contains("remainder with a divisor of zero") {
        "rem-by-zero".to_string()
    } else if msg.contains("remainder with overflow") {
        "rem-overflow".to_string()
    } else if msg.contains("attempt to negate with overflow") {
        "abs-overflow".to_string()
    } else if msg.contains("Internal error") {
        "parser-internal".to_string()
    } else if msg.contains("PoisonError") {
        "poisoned".to_string()
    } else {
        let m: String = msg.chars().take(60).map(|c| if c.is_ascii_alphanumeric() { c } else { '_' }).collect();
        format!("other:{}", m)
    }
}

// ---------------------------------------------------------------------------------------------
// canonical dump (mirror of `dump` in lean/Driver/Expr.lean)

struct Dumper {
    ids: Vec<usize>,
    cells: Vec<String>,
}

impl Dumper {
    fn visit(&mut self, a: &DataArc) -> String {
        let p = Arc::as_ptr(&a.arc) as *const u8 as usize;
        let k = match self.ids.iter().position(|x| *x == p) {
            Some(k) => k,
            None => {
                self.ids.push(p);
                self.cells.push(String::new());
                let k = self.ids.len() - 1;
                let (text, flag) = match a.arc.try_lock() {
                    Ok(g) => (self.data(g.deref()), ""),
                    Err(TryLockError::Poisoned(pe)) => (self.data(pe.into_inner().deref()), "!P"),
                    Err(TryLockError::WouldBlock) => ("?".to_string(), "!L"),
                };
                self.cells[k] = format!("{}{}", text, flag);
                k
            }
        };
        format!("{}{}", k, if a.is_readonly() { "r" } else { "" })
    }

    fn data(&mut self, d: &Data) -> String {
        match d {
            Data::Integer(i) => format!("i{}", i),
            Data::Double(v) => dbl_wire(*v),
            Data::String(s) => format!("s{}", hexs(s)),
            Data::Boolean(b) => format!("b{}", if *b { 1 } else { 0 }),
            Data::Null() => "n".to_string(),
            Data::None() => "N".to_string(),
            Data::Error(e) => format!("e{}", hexs(&err_kind_data(e))),
            Data::Source(s) => format!("S{}.{}", s.source_id, hexs(&s.source)),
            Data::Array(a) => {
                let v: Vec<String> = a.iter().map(|x| self.visit(x)).collect();
                format!("a{}", v.join(","))
            }
            Data::Map(m) => {
                let mut keys: Vec<&String> = m.keys().collect();
                keys.sort_by(|a, b| a.chars().cmp(b.chars()));
                let v: Vec<String> = keys.iter().map(|k| format!("{}={}", hexs(k), self.visit(&m[*k]))).collect();
                format!("m{}", v.join(","))
            }
        }
    }
}

/// doubles by bit pattern; every NaN is the same value (sign and payload of a NaN carry no meaning)
pub fn dbl_wire(v: f64) -> String {
    if v.is_nan() {
        "dNaN".to_string()
    } else {
        format!("d{:016x}", v.to_bits())
    }
}

/// `Data::Error` payloads: texts the operators produce map to kinds, anything else is `text:`
fn err_kind_data(t: &str) -> String {
    let k = err_kind(t);
    if k == "p:lex:internalError" {
        "internal".to_string()
    } else {
        k
    }
}

/// `<result|->|<vars>|<cells>` with cells numbered by first visit (result first, then the variables
/// by name, depth first, map keys sorted)
pub fn dump_store(gd: &GlobalDataArc, result: Option<&DataArc>) -> (String, bool) {
    let (guard, poisoned) = match gd.lock() {
        Ok(g) => (g, false),
        Err(pe) => (pe.into_inner(), true),
    };
    let mut d = Dumper { ids: vec![], cells: vec![] };
    let res = match result {
        Some(r) => d.visit(r),
        None => "-".to_string(),
    };
    let mut names: Vec<&String> = guard.data.map.keys().collect();
    names.sort_by(|a, b| a.chars().cmp(b.chars()));
    let vars: Vec<String> = names.iter().map(|k| format!("{}={}", hexs(k), d.visit(&guard.data.map[*k]))).collect();
    let vars = if vars.is_empty() { ".".to_string() } else { vars.join(",") };
    let cells = if d.cells.is_empty() { ".".to_string() } else { d.cells.join(";") };
    (format!("{}|{}|{}", res, vars, cells), poisoned)
}

// ---------------------------------------------------------------------------------------------
// tokens and ASTs in the driver's notation

pub fn show_token(t: &Token) -> String {
    match t {
        Token::Number(NumericToken::Integer(i)) => format!("I{}", i),
        Token::Number(NumericToken::Double(d)) => format!("D{:016x}", d.to_bits()),
        Token::Identifier(s) => format!("N{}", hexs(s)),
        Token::TString(s) => format!("S{}", hexs(s)),
        Token::Boolean(b) => format!("B{}", if *b { 1 } else { 0 }),
        Token::Operator(o) => format!("O{:?}", o),
        Token::Bracket(c) => format!("K{}", *c as u32),
        Token::Separator(c) => format!("P{}", *c as u32),
        Token::ExpressionSeparator() => "X".to_string(),
        Token::Null() => "U".to_string(),
        Token::Error(e) => {
            let k = err_kind(e);
            format!("E{}", k.strip_prefix("p:lex:").unwrap_or(&k))
        }
        Token::EOE => "Z".to_string(),
    }
}

/// token stream of the real lexer up to the first EOE / Error / NUL separator, at most `max`
pub fn lex_impl(text: &str, stops: &[char], max: usize) -> String {
    let mut l = ExpressionLexer::new(text.to_string());
    let mut out = Vec::new();
    let mut cut = true;
    for _ in 0..max {
        let t = l.next_token_with_stop(stops);
        out.push(show_token(&t));
        if matches!(t, Token::EOE | Token::Error(_) | Token::Separator('\0')) {
            cut = false;
            break;
        }
    }
    format!("{}{}", out.join(" "), if cut { " CUT" } else { "" })
}

pub fn show_expr(e: &dyn Expression) -> String {
    fn many(v: &[Box<dyn Expression>]) -> String {
        v.iter().map(|x| format!(" {}", show_expr(x.deref()))).collect()
    }
    if let Some(c) = get_expression_as::<ExpressionConstant>(e) {
        return match &c.data {
            Data::Integer(i) => format!("i{}", i),
            Data::Double(d) => format!("d{:016x}", d.to_bits()),
            Data::String(s) => format!("s{}", hexs(s)),
            Data::Boolean(b) => format!("b{}", if *b { 1 } else { 0 }),
            Data::Null() => "n".to_string(),
            other => format!("?const:{}", other),
        };
    }
    if let Some(v) = get_expression_as::<ExpressionVariable>(e) {
        return format!("v{}", hexs(&v.name));
    }
    if let Some(a) = get_expression_as::<ExpressionArray>(e) {
        return format!("(A{})", many(&a.array));
    }
    if let Some(m) = get_expression_as::<ExpressionMap>(e) {
        let s: String = m.map.iter().map(|(k, v)| format!(" {} {}", show_expr(k.deref()), show_expr(v.deref()))).collect();
        return format!("(M{})", s);
    }
    if let Some(m) = get_expression_as::<ExpressionMethod>(e) {
        return format!("(C{}{})", hexs(&m.method), many(&m.arguments));
    }
    if let Some(i) = get_expression_as::<ExpressionIndex>(e) {
        return format!("(I {} {})", show_expr(i.left.deref()), show_expr(i.index.deref()));
    }
    if let Some(m) = get_expression_as::<ExpressionMemberAccess>(e) {
        return format!("(D{} {})", hexs(&m.member_name), show_expr(m.left.deref()));
    }
    if let Some(a) = get_expression_as::<ExpressionAssign>(e) {
        return format!("(= {} {})", show_expr(a.left.deref()), show_expr(a.right.deref()));
    }
    if let Some(a) = get_expression_as::<ExpressionAssignUndefined>(e) {
        return format!("(?= {} {})", show_expr(a.left.deref()), show_expr(a.right.deref()));
    }
    if let Some(o) = get_expression_as::<ExpressionOperator>(e) {
        return format!("(O{:?} {} {})", o.operator, show_expr(o.left.deref()), show_expr(o.right.deref()));
    }
    if let Some(n) = get_expression_as::<ExpressionNot>(e) {
        return format!("(! {})", show_expr(n.right.deref()));
    }
    if let Some(s) = get_expression_as::<ExpressionSequence>(e) {
        return format!("(S{})", many(&s.expressions));
    }
    "?expr".to_string()
}

// ---------------------------------------------------------------------------------------------
// running steps under a watchdog

#[derive(Clone, Debug, PartialEq)]
pub enum Step {
    /// `ExpressionParser::execute(text, ctx)`
    X(String),
    /// `Datamodel::execute(Data::Source(id, text))`
    E(usize, String),
    /// `Datamodel::execute_condition`
    C(usize, String),
    /// `Datamodel::assign(left, right)`
    A(usize, String, usize, String),
}

impl Step {
    pub fn wire(&self) -> String {
        match self {
            Step::X(t) => format!("x:{}", hexs(t)),
            Step::E(i, t) => format!("e:{}:{}", i, hexs(t)),
            Step::C(i, t) => format!("c:{}:{}", i, hexs(t)),
            Step::A(i, t, j, u) => format!("a:{}:{}:{}:{}", i, hexs(t), j, hexs(u)),
        }
    }
    pub fn to_json(&self) -> Value {
        match self {
            Step::X(t) => json!({"x": t}),
            Step::E(i, t) => json!({"e": t, "id": i}),
            Step::C(i, t) => json!({"c": t, "id": i}),
            Step::A(i, t, j, u) => json!({"a": [t, u], "ids": [i, j]}),
        }
    }
    pub fn from_json(v: &Value) -> Option<Step> {
        if let Some(t) = v.get("x") {
            return Some(Step::X(t.as_str()?.to_string()));
        }
        if let Some(t) = v.get("e") {
            return Some(Step::E(v.get("id")?.as_u64()? as usize, t.as_str()?.to_string()));
        }
        if let Some(t) = v.get("c") {
            return Some(Step::C(v.get("id")?.as_u64()? as usize, t.as_str()?.to_string()));
        }
        if let Some(t) = v.get("a") {
            let ids = v.get("ids")?;
            return Some(Step::A(
                ids.get(0)?.as_u64()? as usize,
                t.get(0)?.as_str()?.to_string(),
                ids.get(1)?.as_u64()? as usize,
                t.get(1)?.as_str()?.to_string(),
            ));
        }
        None
    }
}

pub struct RunOut {
    /// one entry per executed step, in the model's notation (`ok`, `err:<kind>`, `panic:<site>`, `hang`)
    pub outs: Vec<String>,
    /// canonical dump after the last step (None when the worker hangs: nothing can be observed)
    pub dump: Option<String>,
    pub poisoned: bool,
    pub hung: bool,
    /// a further evaluation on the same store (`probe`) after the steps: outcome text
    pub second: Option<String>,
}

enum Msg {
    Out(String, Option<DataArc>),
    Done,
}

fn panic_text(p: Box<dyn std::any::Any + Send>) -> String {
    if let Some(s) = p.downcast_ref::<&str>() {
        s.to_string()
    } else if let Some(s) = p.downcast_ref::<String>() {
        s.clone()
    } else {
        "?".to_string()
    }
}

fn run_one(dm: &mut RFsmExpressionDatamodel, gd: &GlobalDataArc, step: &Step) -> (String, Option<DataArc>) {
    match step {
        Step::X(t) => {
            let mut g = gd.lock().unwrap();
            match ExpressionParser::execute(t.clone(), &mut g) {
                Ok(v) => ("ok".to_string(), Some(v)),
                Err(e) => (format!("err:{}", err_kind(&e)), None),
            }
        }
        Step::E(id, t) => match dm.execute(&Data::Source(SourceCode::new(t, *id))) {
            Ok(v) => ("ok".to_string(), Some(v)),
            Err(e) => (format!("err:{}", script_err_kind(&e, t)), None),
        },
        Step::C(id, t) => match dm.execute_condition(&Data::Source(SourceCode::new(t, *id))) {
            Ok(b) => (format!("ok:{}", b), None),
            Err(e) => (format!("err:{}", script_err_kind(&e, t)), None),
        },
        Step::A(i, t, j, u) => {
            let b = dm.assign(&Data::Source(SourceCode::new(t, *i)), &Data::Source(SourceCode::new(u, *j)));
            (format!("ok:{}", b), None)
        }
    }
}

/// Runs the steps on a fresh copy of the store in a worker thread (2 MiB stack like a session
/// thread).  `wait` bounds each step; a worker that does not answer is left behind (leaked).
pub fn run_impl(store: &StoreD, steps: &[Step], wait: Duration, probe: Option<&str>) -> RunOut {
    let (gd, _arcs) = store.build();
    let (tx, rx) = mpsc::channel::<Msg>();
    let gd_w = gd.clone();
    let steps_w: Vec<Step> = steps.to_vec();
    let builder = std::thread::Builder::new().name("expr-worker".into());
    let _h = builder
        .spawn(move || {
            let mut dm = RFsmExpressionDatamodel::new(gd_w.clone());
            for s in &steps_w {
                let r = catch_unwind(AssertUnwindSafe(|| run_one(&mut dm, &gd_w, s)));
                match r {
                    Ok((o, v)) => {
                        let _ = tx.send(Msg::Out(o, v));
                    }
                    Err(p) => {
                        let _ = tx.send(Msg::Out(format!("panic:{}", panic_site(&panic_text(p))), None));
                        break;
                    }
                }
            }
            // the datamodel (and its cached expressions) is dropped here, inside the worker
            drop(dm);
            let _ = tx.send(Msg::Done);
        })
        .expect("spawn worker");
    let mut outs = Vec::new();
    let mut last: Option<DataArc> = None;
    let mut hung = false;
    loop {
        match rx.recv_timeout(wait) {
            Ok(Msg::Out(o, v)) => {
                outs.push(o);
                last = v;
            }
            Ok(Msg::Done) => break,
            Err(_) => {
                hung = true;
                outs.push("hang".to_string());
                break;
            }
        }
    }
    if hung {
        return RunOut { outs, dump: None, poisoned: false, hung: true, second: None };
    }
    let (dump, poisoned) = dump_store(&gd, last.as_ref());
    let second = probe.map(|p| second_eval(&gd, p, wait));
    RunOut { outs, dump: Some(dump), poisoned, hung: false, second }
}

/// "the next evaluation": what a session would do next with the same `GlobalData`
fn second_eval(gd: &GlobalDataArc, probe: &str, wait: Duration) -> String {
    let (tx, rx) = mpsc::channel::<String>();
    let gd_w = gd.clone();
    let p = probe.to_string();
    let _ = std::thread::Builder::new().name("expr-second".into()).spawn(move || {
        let r = catch_unwind(AssertUnwindSafe(|| {
            let mut g = gd_w.lock().unwrap();
            match ExpressionParser::execute(p, &mut g) {
                Ok(_) => "ok".to_string(),
                Err(e) => format!("err:{}", err_kind(&e)),
            }
        }));
        let _ = tx.send(match r {
            Ok(s) => s,
            Err(p) => format!("panic:{}", panic_site(&panic_text(p))),
        });
    });
    match rx.recv_timeout(wait) {
        Ok(s) => s,
        Err(_) => "hang".to_string(),
    }
}

pub fn parse_impl(text: &str) -> String {
    match catch_unwind(AssertUnwindSafe(|| ExpressionParser::parse(text.to_string()))) {
        Ok(Ok(e)) => format!("ok {}", show_expr(e.deref())),
        Ok(Err(e)) => {
            let k = err_kind(&e);
            format!("err:{}", k.strip_prefix("p:").unwrap_or(&k))
        }
        Err(p) => format!("panic:{}", panic_site(&panic_text(p))),
    }
}
