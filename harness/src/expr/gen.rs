//! Generators for the expression families: operator chains with a known shape (for the grouping
//! oracle), stores with aliasing, and hostile strings.
use super::imp::{CellD, RefD, StoreD};
use crate::prng::Prng;
use crate::proto::hexs;

pub const BIN_OPS: &[(&str, &str, u8)] = &[
    ("Multiply", "*", 5),
    ("Divide", "/", 5),
    ("Modulus", "%", 5),
    ("And", "&", 5),
    ("Plus", "+", 6),
    ("Minus", "-", 6),
    ("Or", "|", 6),
    ("Less", "<", 9),
    ("LessEqual", "<=", 9),
    ("Greater", ">", 9),
    ("GreaterEqual", ">=", 9),
    ("Equal", "==", 10),
    ("NotEqual", "!=", 10),
];
pub const ASSIGN_OPS: &[(&str, &str, u8)] = &[("Assign", "=", 16), ("AssignUndefined", "?=", 16)];

#[derive(Clone, Debug)]
pub enum Item {
    /// an operand the parser delivers as one stack item (literal, variable, call, index, member …)
    Atom(String),
    Not(Box<Item>),
    Paren(Box<Chain>),
}

#[derive(Clone, Debug)]
pub struct Chain {
    pub first: Item,
    pub rest: Vec<(usize, bool, Item)>, // (operator index, is_assign_table, operand)
}

pub fn op_entry(idx: usize, assign: bool) -> (&'static str, &'static str, u8) {
    if assign {
        ASSIGN_OPS[idx]
    } else {
        BIN_OPS[idx]
    }
}

/// how the text is laid out
#[derive(Clone, Copy, Debug, PartialEq)]
pub enum Layout {
    /// one blank around every operator
    Plain,
    /// random runs of blanks, tabs, newlines between tokens (never empty)
    Wide(u64),
    /// no white space at all around operators
    Tight,
}

fn gap(layout: Layout, k: &mut u64) -> String {
    match layout {
        Layout::Plain => " ".to_string(),
        Layout::Tight => String::new(),
        Layout::Wide(seed) => {
            let mut p = Prng::new(seed.wrapping_add(*k));
            *k += 1;
            let n = p.range(1, 3);
            (0..n).map(|_| *p.pick(&[' ', ' ', '\t', '\n', '\r'])).collect()
        }
    }
}

impl Item {
    pub fn render(&self, layout: Layout, k: &mut u64) -> String {
        match self {
            Item::Atom(s) => s.clone(),
            Item::Not(i) => format!("!{}", i.render(layout, k)),
            Item::Paren(c) => {
                let inner = c.render(layout, k);
                match layout {
                    Layout::Wide(_) => format!("({}{}{})", gap(layout, k), inner, gap(layout, k)),
                    _ => format!("({})", inner),
                }
            }
        }
    }
    pub fn wire(&self) -> String {
        match self {
            Item::Atom(s) => format!("a{}", hexs(s)),
            Item::Not(i) => format!("!{}", i.wire()),
            Item::Paren(c) => c.wire(),
        }
    }
    pub fn depth(&self) -> usize {
        match self {
            Item::Atom(_) => 0,
            Item::Not(i) => i.depth(),
            Item::Paren(c) => 1 + c.depth(),
        }
    }
}

impl Chain {
    pub fn render(&self, layout: Layout, k: &mut u64) -> String {
        let mut s = self.first.render(layout, k);
        for (o, a, it) in &self.rest {
            let g1 = gap(layout, k);
            let g2 = gap(layout, k);
            s.push_str(&format!("{}{}{}{}", g1, op_entry(*o, *a).1, g2, it.render(layout, k)));
        }
        s
    }
    pub fn wire(&self) -> String {
        let mut s = format!("[{}", self.first.wire());
        for (o, a, it) in &self.rest {
            s.push_str(&format!(",{},{}", op_entry(*o, *a).0, it.wire()));
        }
        s.push(']');
        s
    }
    pub fn depth(&self) -> usize {
        std::iter::once(&self.first).chain(self.rest.iter().map(|x| &x.2)).map(|i| i.depth()).max().unwrap_or(0)
    }
    pub fn ops(&self) -> Vec<(&'static str, u8)> {
        self.rest.iter().map(|(o, a, _)| (op_entry(*o, *a).0, op_entry(*o, *a).2)).collect()
    }
    /// the leftmost operator that has a later operator of the same priority with only tighter
    /// operators in between — the place where left and right grouping differ (assignments excluded)
    pub fn regroup_site(&self) -> Option<&'static str> {
        fn inner(i: &Item) -> Option<&'static str> {
            match i {
                Item::Atom(_) => None,
                Item::Not(x) => inner(x),
                Item::Paren(c) => c.regroup_site(),
            }
        }
        if let Some(s) = std::iter::once(&self.first).chain(self.rest.iter().map(|x| &x.2)).find_map(inner) {
            return Some(s);
        }
        let ops = self.ops();
        for i in 0..ops.len() {
            if ops[i].1 == 16 {
                continue;
            }
            for j in i + 1..ops.len() {
                if ops[j].1 == ops[i].1 {
                    return Some(ops[i].0);
                }
                if ops[j].1 > ops[i].1 {
                    break;
                }
            }
        }
        None
    }
    /// same chain with redundant parentheses: around the whole text, and around every atom
    pub fn with_redundant_parens(&self) -> Chain {
        fn wrap(i: &Item) -> Item {
            match i {
                Item::Atom(s) => Item::Paren(Box::new(Chain { first: Item::Atom(s.clone()), rest: vec![] })),
                Item::Not(x) => Item::Not(Box::new(wrap(x))),
                Item::Paren(c) => Item::Paren(Box::new(c.with_redundant_parens())),
            }
        }
        Chain { first: wrap(&self.first), rest: self.rest.iter().map(|(o, a, i)| (*o, *a, wrap(i))).collect() }
    }
}

// ---------------------------------------------------------------------------------------------
// the standard store

pub const I64_MAX: i64 = i64::MAX;
pub const I64_MIN: i64 = i64::MIN;

fn r(id: usize) -> RefD {
    RefD { id, ro: false }
}

/// a store with one variable per value kind, a few aliases and a read-only handle
pub fn standard_store() -> StoreD {
    let mut cells = Vec::new();
    let mut vars = Vec::new();
    let add = |cells: &mut Vec<CellD>, c: CellD| -> usize {
        cells.push(c);
        cells.len() - 1
    };
    let i1 = add(&mut cells, CellD::Int(7));
    let i2 = add(&mut cells, CellD::Int(-3));
    let big = add(&mut cells, CellD::Int(I64_MAX));
    let small = add(&mut cells, CellD::Int(I64_MIN));
    let d1 = add(&mut cells, CellD::Dbl(2.5f64.to_bits()));
    let s1 = add(&mut cells, CellD::Str("ab".into()));
    let s2 = add(&mut cells, CellD::Str("b".into()));
    let t = add(&mut cells, CellD::Bool(true));
    let f = add(&mut cells, CellD::Bool(false));
    let nul = add(&mut cells, CellD::Null);
    let e1 = add(&mut cells, CellD::Int(1));
    let e2 = add(&mut cells, CellD::Int(2));
    let e3 = add(&mut cells, CellD::Int(3));
    let arr = add(&mut cells, CellD::Array(vec![r(e1), r(e2), r(e3)]));
    let x = add(&mut cells, CellD::Int(5));
    let arr1 = add(&mut cells, CellD::Array(vec![r(x)]));
    let mk = add(&mut cells, CellD::Int(1));
    let mj = add(&mut cells, CellD::Str("v".into()));
    let m = add(&mut cells, CellD::Map(vec![("k".into(), r(mk)), ("j".into(), r(mj))]));
    let m1k = add(&mut cells, CellD::Int(1));
    let m1 = add(&mut cells, CellD::Map(vec![("k".into(), r(m1k))]));
    let e = add(&mut cells, CellD::Int(2));
    let ro = add(&mut cells, CellD::Int(4));
    let und = add(&mut cells, CellD::None);
    let err = add(&mut cells, CellD::Error("boom".into()));
    let src = add(&mut cells, CellD::Source(0, "xy".into()));
    // nested: an array holding another variable's cell, a map holding the array
    let nest = add(&mut cells, CellD::Array(vec![r(arr), r(s1)]));
    let mm = add(&mut cells, CellD::Map(vec![("a".into(), r(arr1))]));
    // two levels of members: deep.a.b
    let db = add(&mut cells, CellD::Int(5));
    let da = add(&mut cells, CellD::Map(vec![("b".into(), r(db))]));
    let deep = add(&mut cells, CellD::Map(vec![("a".into(), r(da))]));
    for (n, c) in [
        ("i1", i1), ("i2", i2), ("big", big), ("small", small), ("d1", d1), ("s1", s1), ("s2", s2), ("t", t),
        ("f", f), ("nul", nul), ("arr", arr), ("arr1", arr1), ("m", m), ("m1", m1), ("e", e), ("und", und),
        ("err", err), ("src", src), ("nest", nest), ("mm", mm), ("x", x), ("deep", deep),
    ] {
        vars.push((n.to_string(), r(c)));
    }
    // aliases: `al` is the same cell as `arr`; `sal` the same as `s1`; `ro` is a read-only handle,
    // `rw` a writable handle on the same cell
    vars.push(("al".into(), r(arr)));
    vars.push(("sal".into(), r(s1)));
    vars.push(("ro".into(), RefD { id: ro, ro: true }));
    vars.push(("rw".into(), r(ro)));
    StoreD { cells, vars }
}

pub const INT_ATOMS: &[&str] = &["0", "1", "2", "3", "5", "7", "10", "100", "-1", "-4", "i1", "i2", "x", "deep.a.b", "arr[1]"];
pub const EDGE_INT_ATOMS: &[&str] =
    &["9223372036854775807", "-9223372036854775808", "9223372036854775806", "big", "small", "4611686018427387904", "-9223372036854775807"];
pub const DBL_ATOMS: &[&str] = &["2.5", "0.5", "-4.75", "1e3", "1.5e2", "0.125", "d1", "3.0", "-0.0", "1024.0", ".5", "2."];
pub const STR_ATOMS: &[&str] = &["'a'", "\"b c\"", "''", "s1", "s2", "'10'", "'é'", "sal", "src"];
pub const BOOL_ATOMS: &[&str] = &["true", "false", "t", "f"];
pub const OTHER_ATOMS: &[&str] = &[
    "null", "nul", "[1,2]", "[]", "['a']", "{'a':1}", "{}", "arr", "arr1", "m1", "al", "arr[1]", "m.k", "m['j']",
    "[1,3]", "[1,2,3]", "[1,2,4]", "{'k':2}", "{'j':'v','k':1}", "{'j':'w','k':1}", "m",
    "length(s1)", "s1.length()", "abs(i2)", "toString(i1)", "isDefined(und)", "indexOf(s1, s2)", "und", "err", "e",
    "nest", "mm.a", "nest[0][2]", "[arr1]", "[[1]]", "deep.a.b", "deep.a", "s1.toString().length()", "deep.a.b.toString()",
];

pub fn all_value_atoms() -> Vec<&'static str> {
    let mut v = Vec::new();
    for g in [INT_ATOMS, EDGE_INT_ATOMS, DBL_ATOMS, STR_ATOMS, BOOL_ATOMS, OTHER_ATOMS] {
        v.extend_from_slice(g);
    }
    v
}

/// representative operands, one or two per kind, for the exhaustive operator-table sweep
pub const KIND_ATOMS: &[&str] = &[
    "7", "-3", "9223372036854775807", "-9223372036854775808", "0", "2.5", "-0.5", "'ab'", "'b'", "''", "true", "false",
    "null", "[1,2]", "[]", "{'k':1}", "{}", "arr", "m1", "und", "err", "src", "s1", "i1", "d1",
    // same shape, different content beyond the first element / key
    "[1,3]", "[1,2,3]", "[1,2,4]", "{'k':2}", "{'j':'v','k':1}", "{'j':'w','k':1}",
];

pub fn pick_atom(p: &mut Prng, numeric_bias: bool) -> String {
    let g: &[&str] = if numeric_bias {
        match p.below(10) {
            0..=5 => INT_ATOMS,
            6 => EDGE_INT_ATOMS,
            7 => DBL_ATOMS,
            8 => BOOL_ATOMS,
            _ => STR_ATOMS,
        }
    } else {
        match p.below(10) {
            0 | 1 => INT_ATOMS,
            2 => EDGE_INT_ATOMS,
            3 => DBL_ATOMS,
            4 | 5 => STR_ATOMS,
            6 => BOOL_ATOMS,
            _ => OTHER_ATOMS,
        }
    };
    p.pick(g).to_string()
}

pub fn gen_item(p: &mut Prng, depth: usize, numeric_bias: bool) -> Item {
    match p.below(12) {
        0 if depth > 0 => {
            let n = p.range(1, 3) as usize;
            Item::Paren(Box::new(gen_chain(p, depth - 1, n, numeric_bias)))
        }
        1 if depth > 0 => Item::Paren(Box::new(gen_chain(p, depth - 1, 0, numeric_bias))),
        2 => Item::Not(Box::new(Item::Atom(p.pick(BOOL_ATOMS).to_string()))),
        _ => Item::Atom(pick_atom(p, numeric_bias)),
    }
}

pub fn gen_chain(p: &mut Prng, depth: usize, nops: usize, numeric_bias: bool) -> Chain {
    let first = gen_item(p, depth, numeric_bias);
    let rest = (0..nops)
        .map(|_| {
            let o = p.below(BIN_OPS.len() as u64) as usize;
            (o, false, gen_item(p, depth, numeric_bias))
        })
        .collect();
    Chain { first, rest }
}

/// `target (=|?=) chain`, sometimes `t1 ?= t2 ?= chain`
pub fn gen_assign_chain(p: &mut Prng) -> Chain {
    let targets: &[&str] = &["i1", "q", "m.k", "m.z", "arr[0]", "arr[5]", "ro", "rw", "und", "s1", "m1['k']", "nn.a", "7", "x"];
    let mut rest = Vec::new();
    if p.chance(1, 4) {
        rest.push((p.below(2) as usize, true, Item::Atom(p.pick(targets).to_string())));
    }
    let nops = p.range(0, 2) as usize;
    let value = gen_chain(p, 1, nops, true);
    rest.push((p.below(2) as usize, true, value.first.clone()));
    rest.extend(value.rest.iter().cloned());
    Chain { first: Item::Atom(p.pick(targets).to_string()), rest }
}

// ---------------------------------------------------------------------------------------------
// stores with aliasing for C11

pub fn gen_alias_store(p: &mut Prng) -> StoreD {
    let mut st = standard_store();
    // a few extra variables that point to existing cells (whole-value aliases) or to new
    // containers whose elements are existing cells (element aliases), sometimes cyclic
    let n = st.cells.len();
    for k in 0..p.range(1, 4) {
        let name = format!("z{}", k);
        match p.below(5) {
            0 => st.vars.push((name, RefD { id: p.below(n as u64) as usize, ro: p.chance(1, 5) })),
            1 => {
                let a = p.below(n as u64) as usize;
                let b = p.below(n as u64) as usize;
                st.cells.push(CellD::Array(vec![r(a), r(b)]));
                let id = st.cells.len() - 1;
                st.vars.push((name, r(id)));
            }
            2 => {
                let a = p.below(n as u64) as usize;
                st.cells.push(CellD::Map(vec![("k".into(), r(a))]));
                let id = st.cells.len() - 1;
                st.vars.push((name, r(id)));
            }
            3 => {
                // a cell that contains itself
                let id = st.cells.len();
                st.cells.push(CellD::Array(vec![r(id)]));
                st.vars.push((name, r(id)));
            }
            _ => {
                // one-element array around an existing array cell: `zk == [zk']` shapes
                let a = st.vars.iter().find(|(n, _)| n == "arr1").map(|(_, r)| r.id).unwrap();
                st.cells.push(CellD::Array(vec![r(a)]));
                let id = st.cells.len() - 1;
                st.vars.push((name, r(id)));
            }
        }
    }
    st
}

// ---------------------------------------------------------------------------------------------
// hostile strings for C11

const VOCAB: &[&str] = &[
    "(", ")", "[", "]", "{", "}", ",", ";", ".", ":", "'", "\"", "\\", "!", "=", "?=", "==", "!=", "<", ">", "<=", ">=",
    "+", "-", "*", "/", "%", "&", "|", "?", " ", "\t", "\n", "\0", "e", "E", "1", "0", "9", "-1", "1e", "1e+", ".5",
    "1.", "..", "\\u00", "\\u0041", "\\n", "\\'", "true", "null", "a", "arr", "m", "é", "日", "\u{1F600}", "\u{FFFF}",
    "99999999999999999999", "-9223372036854775808", "abs(", "length(", "toString(", "x ?= ", "a = a", "arr[arr]",
    "arr1 == [arr1]", "% 0", "% -1",
];

pub fn mutate(p: &mut Prng, s: &str) -> String {
    let mut cs: Vec<char> = s.chars().collect();
    for _ in 0..p.range(1, 3) {
        match p.below(5) {
            0 if !cs.is_empty() => {
                let i = p.below(cs.len() as u64) as usize;
                cs.remove(i);
            }
            1 => {
                let i = p.below(cs.len() as u64 + 1) as usize;
                let ins: Vec<char> = p.pick(VOCAB).chars().collect();
                for (k, c) in ins.into_iter().enumerate() {
                    cs.insert(i + k, c);
                }
            }
            2 if !cs.is_empty() => {
                let i = p.below(cs.len() as u64) as usize;
                cs[i] = p.pick(VOCAB).chars().next().unwrap();
            }
            3 if !cs.is_empty() => {
                let i = p.below(cs.len() as u64) as usize;
                cs.truncate(i);
            }
            _ if cs.len() > 1 => {
                let i = p.below(cs.len() as u64 - 1) as usize;
                cs.swap(i, i + 1);
            }
            _ => {}
        }
    }
    cs.into_iter().collect()
}

pub fn random_unicode(p: &mut Prng) -> String {
    let n = p.range(0, 12);
    (0..n)
        .map(|_| match p.below(6) {
            0 => char::from_u32(p.below(0x80) as u32).unwrap(),
            1 => char::from_u32(0x80 + p.below(0x780) as u32).unwrap(),
            2 => {
                let c = p.below(0x11_0000) as u32;
                char::from_u32(c).unwrap_or('\u{FFFD}')
            }
            _ => p.pick(VOCAB).chars().next().unwrap(),
        })
        .collect()
}

pub fn vocab_soup(p: &mut Prng) -> String {
    let n = p.range(1, 8);
    (0..n).map(|_| *p.pick(VOCAB)).collect::<Vec<_>>().join(if p.chance(1, 2) { " " } else { "" })
}
