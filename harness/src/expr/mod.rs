//! C10 / C11 — the rfsm-expression language.  Families `c10` (semantics: grouping, operator
//! table, cache, white space, parentheses) and `c11` (totality: no panic, no hang, store usable
//! afterwards).  Both compare the real engine with the Lean model (`expr lex|parse|run`) and
//! evaluate the property oracle on the implementation's behaviour (`expr oracle` = reference value
//! of the chain under the documented grouping; outcome ∈ {value, error} and store usable).
mod gen;
mod imp;

use crate::prng::Prng;
use crate::proto::{hexs, Model};
use crate::report::Report;
use crate::Args;
use gen::*;
use imp::*;
use serde_json::{json, Value};
use std::io::Read;
use std::process::{Command, Stdio};
use std::time::{Duration, Instant};

const LONG_WAIT: Duration = Duration::from_secs(20);
const SHORT_WAIT: Duration = Duration::from_millis(250);
const UNMODELLED: &str = "efbfbf"; // U+FFFF: the Float instance cannot print this double

// ---------------------------------------------------------------------------------------------
// model replies

struct ModelRun {
    outs: Vec<String>,
    dump: Option<String>,
}

fn ask_run(model: &mut Model, store: &StoreD, steps: &[Step]) -> ModelRun {
    let w: Vec<String> = steps.iter().map(|s| s.wire()).collect();
    let reply = model.ask(&format!("expr run {} {}", store.wire(), w.join(";")));
    let mut it = reply.splitn(2, ' ');
    let outs: Vec<String> = it.next().unwrap_or("").split(';').map(|s| s.to_string()).collect();
    let dump = match it.next() {
        Some("gone") | None => None,
        Some(d) => Some(d.to_string()),
    };
    ModelRun { outs, dump }
}

fn is_hang(o: &str) -> bool {
    o.starts_with("deadlock:") || o == "livelock" || o == "hang"
}

fn outs_agree(imp: &[String], model: &[String]) -> bool {
    imp.len() == model.len()
        && imp.iter().zip(model).all(|(a, b)| a == b || (a == "hang" && (b.starts_with("deadlock:") || b == "livelock")))
}

/// dumps are equal, or equal up to the order of map entries inside texts (HashMap iteration order)
fn dumps_agree(a: &str, b: &str, tolerant: bool) -> bool {
    if a == b {
        return true;
    }
    if !tolerant {
        return false;
    }
    let pa: Vec<&str> = a.split(|c| c == '|' || c == ';').collect();
    let pb: Vec<&str> = b.split(|c| c == '|' || c == ';').collect();
    if pa.len() != pb.len() {
        return false;
    }
    pa.iter().zip(&pb).all(|(x, y)| {
        if x == y {
            return true;
        }
        if (x.starts_with('s') && y.starts_with('s')) || (x.starts_with('S') && y.starts_with('S')) {
            let mut u: Vec<char> = x.chars().collect();
            let mut v: Vec<char> = y.chars().collect();
            u.sort();
            v.sort();
            return u == v;
        }
        false
    })
}

fn multi_entry_map(store: &StoreD, texts: &[&str]) -> bool {
    store.cells.iter().any(|c| matches!(c, CellD::Map(m) if m.len() > 1))
        || texts.iter().any(|t| {
            // a map literal with a comma at depth 1
            t.contains('{') && t.contains(',')
        })
}

fn probe_for(store: &StoreD) -> String {
    if store.vars.is_empty() {
        "1".to_string()
    } else {
        store.vars.iter().map(|(n, _)| format!("isDefined({})", n)).collect::<Vec<_>>().join(" & ")
    }
}

// ---------------------------------------------------------------------------------------------
// child process for inputs that may spin or overflow the stack

/// runs `ExpressionParser::execute(text)` on the standard store in a child process with a memory
/// limit; returns `ok`, `err:<kind>`, `panic:<site>`, `timeout`, `signal:<n>`, `exit:<n>`
fn run_in_child(args: &Args, text: &str, wait: Duration) -> String {
    let dir = std::env::temp_dir().join("expr");
    let _ = std::fs::create_dir_all(&dir);
    let path = dir.join(format!("child-{}-{}.txt", std::process::id(), text.len()));
    std::fs::write(&path, text).unwrap();
    // the child needs no model: hand it a stand-in that answers the start-up ping
    let pong = dir.join(format!("pong-{}.sh", std::process::id()));
    if !pong.exists() {
        std::fs::write(&pong, "#!/bin/sh\nwhile read l; do echo pong; done\n").unwrap();
        use std::os::unix::fs::PermissionsExt;
        let _ = std::fs::set_permissions(&pong, std::fs::Permissions::from_mode(0o755));
    }
    let _ = args;
    let exe = std::env::current_exe().unwrap();
    let mut child = match Command::new("sh")
        .arg("-c")
        .arg("ulimit -v 3000000; exec \"$0\" \"$@\"")
        .arg(&exe)
        .arg("expr-child")
        .arg("--model")
        .arg(&pong)
        .arg("--out")
        .arg("/dev/null")
        .arg(&path)
        .stdout(Stdio::piped())
        .stderr(Stdio::null())
        .spawn()
    {
        Ok(c) => c,
        Err(e) => return format!("spawn-failed:{}", e),
    };
    let t0 = Instant::now();
    let status = loop {
        match child.try_wait() {
            Ok(Some(st)) => break Some(st),
            Ok(None) => {
                if t0.elapsed() > wait {
                    let _ = child.kill();
                    let _ = child.wait();
                    break None;
                }
                std::thread::sleep(Duration::from_millis(5));
            }
            Err(_) => break None,
        }
    };
    let _ = std::fs::remove_file(&path);
    match status {
        None => "timeout".to_string(),
        Some(st) => {
            let mut out = String::new();
            if let Some(mut so) = child.stdout.take() {
                let _ = so.read_to_string(&mut out);
            }
            if let Some(l) = out.lines().find(|l| l.starts_with("CHILD ")) {
                return l[6..].to_string();
            }
            use std::os::unix::process::ExitStatusExt;
            if let Some(sig) = st.signal() {
                format!("signal:{}", sig)
            } else {
                format!("exit:{}", st.code().unwrap_or(-1))
            }
        }
    }
}

fn child_main(args: &Args) -> ! {
    let text = std::fs::read_to_string(&args.extra[0]).unwrap_or_default();
    let store = standard_store();
    let out = run_impl(&store, &[Step::X(text)], Duration::from_secs(3600), None);
    println!("CHILD {}", out.outs.last().cloned().unwrap_or_default());
    std::process::exit(0)
}

// ---------------------------------------------------------------------------------------------
// one correspondence case

#[derive(Clone)]
struct Case {
    origin: String,
    store: StoreD,
    steps: Vec<Step>,
    /// chain shape for the grouping oracle (applies to the first step's text)
    chain: Option<Chain>,
    /// expected boolean value computed outside model and implementation (exact integer compare)
    expect_bool: Option<bool>,
}

impl Case {
    fn x(origin: &str, store: &StoreD, text: &str) -> Case {
        Case { origin: origin.to_string(), store: store.clone(), steps: vec![Step::X(text.to_string())], chain: None, expect_bool: None }
    }
    fn to_json(&self) -> Value {
        json!({
            "origin": self.origin,
            "store": self.store.to_json(),
            "steps": self.steps.iter().map(|s| s.to_json()).collect::<Vec<_>>(),
        })
    }
    fn from_json(v: &Value) -> Option<Case> {
        Some(Case {
            origin: "replay".to_string(),
            store: StoreD::from_json(v.get("store")?)?,
            steps: v.get("steps")?.as_array()?.iter().map(Step::from_json).collect::<Option<Vec<_>>>()?,
            chain: None,
            expect_bool: None,
        })
    }
    fn first_text(&self) -> String {
        match &self.steps[0] {
            Step::X(t) | Step::E(_, t) | Step::C(_, t) => t.clone(),
            Step::A(_, t, _, u) => format!("{} = {}", t, u),
        }
    }
}

fn ends_with_operator_char(t: &str) -> bool {
    matches!(t.chars().last(), Some('<') | Some('>') | Some('=') | Some('!'))
}

fn nesting_depth(t: &str) -> usize {
    let mut d = 0usize;
    let mut m = 0usize;
    for c in t.chars() {
        match c {
            '(' | '[' | '{' => {
                d += 1;
                m = m.max(d);
            }
            ')' | ']' | '}' => d = d.saturating_sub(1),
            _ => {}
        }
    }
    m.max(t.chars().filter(|c| *c == '!').count() / 4)
}

struct Ctx<'a> {
    args: &'a Args,
    c10: bool,
}

/// Model vs implementation on (store, steps); C11 oracle on the implementation's behaviour.
/// Returns the implementation's outcome for further (C10) checks.
fn check_case(cx: &Ctx, c: &Case, model: &mut Model, rep: &mut Report) -> Option<RunOut> {
    let c11_fail = |rep: &mut Report, sig: &str, v: Value| {
        // totality failures are C11's to report; the C10 family only counts them
        if cx.c10 {
            rep.count(&format!("c11-territory:{}", sig));
        } else {
            rep.oracle_fail(sig, v);
        }
    };
    if rep.extra.contains_key("aborted") {
        // an unpredicted hang was seen: a spinning thread may be eating memory, stop evaluating
        return None;
    }
    rep.evaluations += 1;
    let prop = if cx.c10 { "C10" } else { "C11" };
    let texts: Vec<String> = c.steps.iter().map(|s| match s {
        Step::X(t) | Step::E(_, t) | Step::C(_, t) => t.clone(),
        Step::A(_, t, _, u) => format!("{} {}", t, u),
    }).collect();
    let m = ask_run(model, &c.store, &c.steps);
    if m.outs.iter().any(|o| o == "bad-op" || o == "fuelout") {
        rep.disagree(json!({"case": c.to_json(), "model": m.outs, "note": "model could not run the case"}));
        return None;
    }
    let predicted_hang = m.outs.iter().any(|o| is_hang(o));
    let spin_risk = texts.iter().any(|t| ends_with_operator_char(t));
    let deep = texts.iter().any(|t| nesting_depth(t) > 200);
    let probe = probe_for(&c.store);

    // --- inputs that may spin or blow the stack run in a child process (standard store only)
    if spin_risk || deep || m.outs.iter().any(|o| o == "livelock") {
        let text = texts[0].clone();
        let wait = if m.outs.iter().any(|o| o == "livelock") { Duration::from_millis(400) } else { Duration::from_secs(30) };
        let got = run_in_child(cx.args, &text, wait);
        rep.count(&format!("child:{}", got.split(':').next().unwrap_or("")));
        let want = &m.outs[0];
        let agree = got == *want || (got == "timeout" && want == "livelock");
        if c.steps.len() != 1 || c.store != standard_store() {
            // child mode supports a single `x` step on the standard store; generators respect that
            rep.count("child:unsupported-shape");
        }
        if got == "timeout" {
            rep.count("outcome:livelock");
            c11_fail(rep, "C11:livelock:operator-at-end", json!({"case": c.to_json(), "impl": got, "model": want}));
            if !agree {
                rep.disagree(json!({"case": c.to_json(), "impl": got, "model": m.outs}));
            }
        } else if got.starts_with("signal:") || got.starts_with("exit:") {
            rep.count("outcome:crash");
            let d = nesting_depth(&text);
            let sig = if deep { format!("C11:stack-overflow:nesting>={}", bucket(d)) } else { format!("C11:crash:{}", got) };
            c11_fail(rep, &sig, json!({"case": case_json_short(c), "impl": got, "model": want, "nesting": d}));
        } else {
            if !agree {
                rep.disagree(json!({"case": case_json_short(c), "impl": got, "model": m.outs}));
            }
            if got.starts_with("panic:") {
                c11_fail(rep, &format!("C11:panic:{}", &got[6..]), json!({"case": case_json_short(c), "impl": got}));
            }
        }
        return None;
    }

    let wait = if predicted_hang { SHORT_WAIT } else { LONG_WAIT };
    let out = run_impl(&c.store, &c.steps, wait, Some(&probe));
    for o in &out.outs {
        let k = o.split(':').next().unwrap_or("");
        rep.count(&format!("outcome:{}", k));
        if k == "err" {
            let kind: String = o[4..].split(':').take(2).collect::<Vec<_>>().join(":");
            rep.count(&format!("err:{}", kind));
        }
    }
    // --- model vs implementation
    let tolerant = multi_entry_map(&c.store, &texts.iter().map(|s| s.as_str()).collect::<Vec<_>>());
    let mut agree = outs_agree(&out.outs, &m.outs);
    let mut skipped_text = false;
    if agree {
        match (&out.dump, &m.dump) {
            (Some(a), Some(b)) => {
                if b.contains(UNMODELLED) {
                    skipped_text = true;
                    rep.count("dump-skipped:double-text-outside-model");
                } else if !dumps_agree(a, b, tolerant) {
                    agree = false;
                } else if a != b {
                    rep.count("dump-equal-modulo-map-order");
                }
            }
            (None, None) => {}
            _ => agree = false,
        }
    }
    if !agree {
        rep.disagree(json!({"case": c.to_json(), "impl": {"outs": out.outs, "dump": out.dump}, "model": {"outs": m.outs, "dump": m.dump}}));
        if out.hung && !predicted_hang {
            // an unpredicted hang may be a spinning thread: report and stop the process
            c11_fail(rep, "C11:hang:unexpected", json!({"case": c.to_json()}));
            rep.extra.insert("aborted".into(), json!("unexpected hang; remaining cases not run"));
            return None;
        }
    }
    let _ = skipped_text;
    // --- C11 oracle: outcome ∈ {value, error}, store usable afterwards
    for (i, o) in out.outs.iter().enumerate() {
        if o.starts_with("panic:") {
            c11_fail(
                rep,
                &format!("C11:panic:{}", &o[6..]),
                json!({"case": c.to_json(), "step": i, "impl": o, "store_poisoned": out.poisoned, "second_evaluation": out.second}),
            );
        } else if o == "hang" {
            let site = m.outs.get(i).and_then(|s| s.strip_prefix("deadlock:")).unwrap_or("unpredicted");
            c11_fail(rep, &format!("C11:self-deadlock:{}", site), json!({"case": c.to_json(), "step": i, "impl": o}));
        }
    }
    if !out.hung && !out.outs.iter().any(|o| o.starts_with("panic:")) {
        let second_ok = matches!(out.second.as_deref(), Some(s) if s == "ok" || s.starts_with("err:"));
        let locked = out.dump.as_deref().map(|d| d.contains("!L") || d.contains("!P")).unwrap_or(false);
        if out.poisoned || !second_ok || locked {
            c11_fail(
                rep,
                &format!("{}:store-unusable", "C11"),
                json!({"case": c.to_json(), "poisoned": out.poisoned, "second": out.second, "dump": out.dump}),
            );
        }
    }
    let _ = prop;
    Some(out)
}

fn bucket(d: usize) -> usize {
    let mut b = 1;
    while b * 10 <= d {
        b *= 10;
    }
    b
}

fn case_json_short(c: &Case) -> Value {
    let t = c.first_text();
    if t.len() > 300 {
        let head: String = t.chars().take(40).collect();
        json!({"origin": c.origin, "text_len": t.chars().count(), "text_head": head, "generated_by": c.origin})
    } else {
        c.to_json()
    }
}

// ---------------------------------------------------------------------------------------------
// C10: grouping oracle, cache, white space, parentheses

fn value_part(dump: &str) -> String {
    // result ref + cells reachable from it are canonical only together with the store; compare whole dump
    dump.to_string()
}

fn check_chain(cx: &Ctx, ch: &Chain, store: &StoreD, origin: &str, model: &mut Model, rep: &mut Report, p: &mut Prng) {
    let mut k = 0u64;
    let text = ch.render(Layout::Plain, &mut k);
    rep.count(&format!("chain:ops={}", ch.rest.len()));
    rep.count(&format!("chain:depth={}", ch.depth()));
    for (n, _) in ch.ops() {
        rep.count(&format!("op:{}", n));
    }
    rep.nontrivial.insert(text.clone());
    let base = Case { origin: origin.to_string(), store: store.clone(), steps: vec![Step::X(text.clone())], chain: Some(ch.clone()), expect_bool: None };
    let out = match check_case(cx, &base, model, rep) {
        Some(o) => o,
        None => return,
    };
    if out.hung || out.outs.iter().any(|o| o.starts_with("panic:")) {
        return; // C11 territory; reported there
    }
    let impl_dump = out.dump.clone().unwrap_or_default();
    let impl_out = out.outs[0].clone();

    // the tree the parser built, against the model's
    if !ends_with_operator_char(&text) {
        let it = parse_impl(&text);
        let mt = model.ask(&format!("expr parse {}", hexs(&text)));
        rep.count("parse-compared");
        if it != mt {
            rep.disagree(json!({"what": "parse", "text": text, "impl": it, "model": mt}));
        }
    }

    // (a) the reference value: documented precedence, equal priorities grouped left to right
    let reply = model.ask(&format!("expr oracle {} {}", store.wire(), ch.wire()));
    let mut it = reply.splitn(3, ' ');
    let r_out = it.next().unwrap_or("").to_string();
    let r_dump = it.next().unwrap_or("").to_string();
    let r_tree = it.next().unwrap_or("").to_string();
    if r_out == "bad-op" || r_out == "no-tree" {
        rep.disagree(json!({"case": base.to_json(), "oracle": reply, "note": "oracle could not build the reference tree"}));
    } else if r_dump.contains(UNMODELLED) {
        rep.count("oracle-skipped:double-text-outside-model");
    } else {
        let tolerant = multi_entry_map(store, &[&text]);
        let same = impl_out == r_out && (r_dump == "gone" || dumps_agree(&impl_dump, &r_dump, tolerant));
        if same {
            rep.count("oracle:agree");
        } else {
            let parsed = parse_impl(&text);
            let sig = match ch.regroup_site() {
                Some(op) if parsed.starts_with("ok ") && parsed[3..] != r_tree => format!("C10:right-assoc:{}", op),
                _ => "C10:value-differs-from-reference".to_string(),
            };
            rep.count(&format!("oracle:{}", sig));
            rep.oracle_fail(
                &sig,
                json!({"case": base.to_json(), "impl": {"out": impl_out, "dump": impl_dump, "tree": parsed},
                       "reference": {"out": r_out, "dump": r_dump, "tree": r_tree}}),
            );
        }
    }

    // (b) compiled afresh vs served from the session's cache (same source id twice), and vs (i)
    let id = 1 + p.below(3) as usize;
    let id2 = id + 1 + p.below(2) as usize;
    let other = "1 + 2 * 3 - i2".to_string();
    let cached = Case {
        origin: format!("{}:cache", origin),
        store: store.clone(),
        steps: vec![Step::E(id, text.clone()), Step::E(id2, other.clone()), Step::E(id, text.clone()), Step::E(id2, other.clone())],
        chain: None,
        expect_bool: None,
    };
    if let Some(co) = check_case(cx, &cached, model, rep) {
        // second (cached) evaluation on a fresh store must behave like the first on a fresh store
        let once = run_impl(store, &[Step::E(id, text.clone())], LONG_WAIT, None);
        let twice_fresh = run_impl(
            store,
            &[Step::E(0, text.clone()), Step::E(0, other.clone()), Step::E(0, text.clone()), Step::E(0, other.clone())],
            LONG_WAIT,
            None,
        );
        if co.outs != twice_fresh.outs || co.dump != twice_fresh.dump {
            rep.oracle_fail(
                "C10:cache-differs-from-fresh",
                json!({"case": cached.to_json(), "cached": {"outs": co.outs, "dump": co.dump}, "fresh": {"outs": twice_fresh.outs, "dump": twice_fresh.dump}}),
            );
        } else {
            rep.count("cache:agree");
        }
        let _ = once;
    }

    // (c) incidental white space: wider gaps, and no gaps at all
    let mut k2 = 0u64;
    let wide = ch.render(Layout::Wide(p.next()), &mut k2);
    variant_same(cx, "wide", &text, &wide, store, &impl_out, &impl_dump, model, rep);
    let mut k3 = 0u64;
    let tight = ch.render(Layout::Tight, &mut k3);
    variant_same(cx, "tight", &text, &tight, store, &impl_out, &impl_dump, model, rep);

    // (d) redundant parentheses: around the whole expression and around every operand
    let whole = format!("({})", text);
    variant_same(cx, "paren-whole", &text, &whole, store, &impl_out, &impl_dump, model, rep);
    let mut k4 = 0u64;
    let each = ch.with_redundant_parens().render(Layout::Plain, &mut k4);
    variant_same(cx, "paren-operands", &text, &each, store, &impl_out, &impl_dump, model, rep);
}

/// the variant text must evaluate like the base text (implementation vs implementation), and the
/// model must agree with the implementation on the variant too
#[allow(clippy::too_many_arguments)]
fn variant_same(cx: &Ctx, kind: &str, base: &str, variant: &str, store: &StoreD, base_out: &str, base_dump: &str, model: &mut Model, rep: &mut Report) {
    if variant == base {
        return;
    }
    let vc = Case::x(&format!("variant:{}", kind), store, variant);
    let out = match check_case(cx, &vc, model, rep) {
        Some(o) => o,
        None => return,
    };
    if out.hung || out.outs.iter().any(|o| o.starts_with("panic:")) {
        return;
    }
    let same = out.outs[0] == base_out && out.dump.as_deref() == Some(base_dump);
    let tolerant_same = same || (out.outs[0] == base_out && dumps_agree(out.dump.as_deref().unwrap_or(""), base_dump, true));
    if tolerant_same {
        rep.count(&format!("variant:{}:same", kind));
        return;
    }
    // classify
    let sig = if kind == "tight" {
        if minus_before_number(variant) {
            "C10:whitespace:minus-before-digit".to_string()
        } else if minus_before_e(variant) {
            "C10:whitespace:minus-before-e".to_string()
        } else {
            "C10:whitespace:tight".to_string()
        }
    } else {
        format!("C10:{}-changes-value", kind)
    };
    rep.count(&format!("variant:{}", sig));
    rep.oracle_fail(
        &sig,
        json!({"base": base, "variant": variant, "store": store.to_json(),
               "base_result": {"out": base_out, "dump": base_dump},
               "variant_result": {"out": out.outs[0], "dump": out.dump},
               "steps": [{"x": variant}]}),
    );
}

/// `-` directly followed by a digit or `.` after an operand: lexed as the sign of a literal
fn minus_before_number(t: &str) -> bool {
    let cs: Vec<char> = t.chars().collect();
    (1..cs.len().saturating_sub(1)).any(|i| {
        cs[i] == '-' && (cs[i + 1].is_ascii_digit() || cs[i + 1] == '.') && !"+-*/%&|<>=!(,[{:".contains(cs[i - 1])
    })
}

/// `-` directly followed by `e`/`E`: the lexer swallows that letter
fn minus_before_e(t: &str) -> bool {
    let cs: Vec<char> = t.chars().collect();
    (0..cs.len().saturating_sub(1)).any(|i| cs[i] == '-' && (cs[i + 1] == 'e' || cs[i + 1] == 'E'))
}

// ---------------------------------------------------------------------------------------------
// lexer / parser correspondence on raw strings

fn check_lex_parse(text: &str, model: &mut Model, rep: &mut Report) {
    if ends_with_operator_char(text) || nesting_depth(text) > 200 {
        return;
    }
    let n = text.chars().count() + 2;
    for stops in [vec!['\0'], vec![',', ')'], vec![':', '}']] {
        let imp = lex_impl(text, &stops, n);
        let sw: Vec<String> = stops.iter().map(|c| (*c as u32).to_string()).collect();
        let m = model.ask(&format!("expr lex {} {}", sw.join(","), hexs(text)));
        rep.count("lex-compared");
        if imp != m {
            rep.disagree(json!({"what": "lex", "text": text, "stops": sw, "impl": imp, "model": m}));
        }
    }
    let imp = parse_impl(text);
    let m = model.ask(&format!("expr parse {}", hexs(text)));
    rep.count("parse-compared");
    rep.count(if imp.starts_with("ok ") { "parse:ok" } else { "parse:err" });
    if imp != m {
        rep.disagree(json!({"what": "parse", "text": text, "impl": imp, "model": m}));
    }
    if imp.starts_with("panic:") {
        rep.oracle_fail(&format!("C11:panic:{}", &imp[6..]), json!({"what": "parse", "text": text}));
    }
}

// ---------------------------------------------------------------------------------------------
// corpora

fn c10_corpus() -> Vec<(Chain, &'static str)> {
    fn atoms(a: &[&str], ops: &[usize]) -> Chain {
        Chain {
            first: Item::Atom(a[0].to_string()),
            rest: ops.iter().enumerate().map(|(i, o)| (*o, false, Item::Atom(a[i + 1].to_string()))).collect(),
        }
    }
    let op = |n: &str| BIN_OPS.iter().position(|x| x.0 == n).unwrap();
    vec![
        // P2 (DESIGN §5): equal-priority operators group to the right
        (atoms(&["10", "4", "3"], &[op("Minus"), op("Minus")]), "P2:10-4-3"),
        (atoms(&["100", "10", "5"], &[op("Divide"), op("Divide")]), "P2:100/10/5"),
        (atoms(&["1", "2", "3"], &[op("Minus"), op("Plus")]), "P2:1-2+3"),
        (atoms(&["7", "2", "3"], &[op("Multiply"), op("Modulus")]), "P2:7*2%3"),
        (atoms(&["17", "5", "3"], &[op("Modulus"), op("Modulus")]), "P2:17%5%3"),
        (atoms(&["1", "1", "true"], &[op("Equal"), op("Equal")]), "P2:1==1==true"),
        (atoms(&["3", "2", "true"], &[op("Greater"), op("GreaterEqual")]), "P2:3>2>=true"),
        // fine under both groupings
        (atoms(&["12", "2", "4"], &[op("Plus"), op("Multiply")]), "prec:12+2*4"),
        (atoms(&["2", "4", "12"], &[op("Multiply"), op("Plus")]), "prec:2*4+12"),
        (atoms(&["1", "2", "3", "4"], &[op("Less"), op("Plus"), op("Multiply")]), "prec:1<2+3*4"),
        (atoms(&["true", "false", "true"], &[op("Or"), op("And")]), "prec:t|f&t"),
        (atoms(&["['a']", "['b']", "'c'"], &[op("Plus"), op("Plus")]), "readme:array+"),
        (atoms(&["{'b':'abc'}", "{'a':123}", "{'a':123, 'b':'abc'}"], &[op("Plus"), op("Equal")]), "readme:map+"),
        // saturation and the numeric tower at its edges
        (atoms(&["9223372036854775807", "1"], &[op("Plus")]), "sat:max+1"),
        (atoms(&["-9223372036854775808", "1"], &[op("Minus")]), "sat:min-1"),
        (atoms(&["9223372036854775807", "2"], &[op("Multiply")]), "sat:max*2"),
        (atoms(&["-9223372036854775808", "-1"], &[op("Multiply")]), "sat:min*-1"),
        (atoms(&["7", "2"], &[op("Divide")]), "div:7/2"),
        (atoms(&["1", "0"], &[op("Divide")]), "div:1/0"),
        (atoms(&["0", "0"], &[op("Divide")]), "div:0/0"),
        (atoms(&["7", "2.0"], &[op("Modulus")]), "mod:7%2.0"),
        (atoms(&["-7", "2"], &[op("Modulus")]), "mod:-7%2"),
        (atoms(&["1", "2.5"], &[op("Plus")]), "contagion:1+2.5"),
        (atoms(&["2.5", "2"], &[op("Multiply")]), "contagion:2.5*2"),
        (atoms(&["1", "1.0"], &[op("Equal")]), "eq:1==1.0"),
        (atoms(&["[1,[2]]", "[1,[2]]"], &[op("Equal")]), "eq:nested"),
        (atoms(&["{'a':[1]}", "{'a':[1]}"], &[op("Equal")]), "eq:map"),
        (atoms(&["'a'", "'b'"], &[op("Less")]), "cmp:str"),
        (atoms(&["'a'", "1"], &[op("Less")]), "cmp:mixed"),
        (atoms(&["'a'", "1"], &[op("Greater")]), "cmp:mixed>"),
        (atoms(&["null", "1"], &[op("Less")]), "cmp:null"),
        (atoms(&["null", "1"], &[op("Plus")]), "plus:null"),
        (atoms(&["'x'", "[1,'a']"], &[op("Plus")]), "plus:str+array"),
        (atoms(&["1", "'x'"], &[op("Plus")]), "plus:int+str"),
        (atoms(&["true", "false"], &[op("Plus")]), "plus:bool"),
        // the `-e` quirk (only visible in the tight layout) and minus before a digit
        (atoms(&["5", "e"], &[op("Minus")]), "lexer:5-e"),
        (atoms(&["1", "2"], &[op("Minus")]), "lexer:1-2"),
        (atoms(&["i1", "1"], &[op("Minus")]), "lexer:a-1"),
    ]
}

fn c11_corpus() -> Vec<(&'static str, &'static str)> {
    vec![
        // P3
        ("5 % 0", "P3"),
        ("i1 % 0", "P3:var"),
        ("-9223372036854775808 % -1", "P3:min%-1"),
        ("small % i2 / 3", "rem-ok"),
        ("abs(-9223372036854775808)", "abs-min"),
        ("abs(small)", "abs-min:var"),
        // P4
        ("i1 = i1", "P4:a=a"),
        ("i1 ?= i1", "P4:a?=a"),
        ("arr ?= al", "P4:alias?="),
        ("arr[arr]", "P4:a[a]"),
        ("al[arr]", "P4:alias[a]"),
        ("arr1 == [arr1]", "P4:a==[a]"),
        ("[arr1] != arr1", "P4:[a]!=a"),
        ("m[m]", "map[map]: try_lock, no deadlock"),
        ("m1 == {'k': m1}", "eq map no deadlock (value differs first)"),
        ("mm == {'a': mm}", "eq map with array inside"),
        ("arr == arr", "same arc"),
        ("arr == al", "same arc via alias"),
        ("s1 = sal", "P4:alias="),
        ("arr[0] = arr[0]", "P4:element=element"),
        ("x = arr1[0]", "P4:var=element alias"),
        // regression (repaired livelock): operator character as the very last character
        ("1 <", "regression livelock:<"),
        ("i1 =", "regression livelock:="),
        ("!", "regression livelock:!"),
        ("1 >", "regression livelock:>"),
        ("1 ?", "no livelock: error"),
        ("1 < ", "no livelock: trailing blank"),
        // malformed
        ("", "empty"),
        ("'abc", "unterminated string"),
        ("\"abc\\", "unterminated escape"),
        ("'\\u12'", "short \\u"),
        ("'\\u00e9'", "hex letter in \\u"),
        ("'\\''", "escaped quote is illegal"),
        ("'a\\/b\\\\c\\\"d'", "escapes / \\ \""),
        ("'\\b\\f\\n\\r\\t'", "control escapes"),
        ("\"it's\" + 'say \"x\"'", "other delimiter inside"),
        ("'\\u0041\\u9999'", "\\u with decimal digits"),
        ("'\\x'", "unknown escape"),
        ("arr[1.0005]", "index: fraction below 0.001"),
        ("arr[1.005]", "index: fraction above 0.001"),
        ("arr[-0.0005]", "index: negative small fraction"),
        ("arr[9223372036854775807]", "index: max"),
        ("arr[1e30]", "index: out of i64 range"),
        ("(1 + 2", "unterminated ("),
        ("[1, 2", "unterminated ["),
        ("{'a': 1", "unterminated {"),
        ("{'a'}", "map without value"),
        ("1 + + 2", "double operator"),
        ("1 2", "two operands"),
        ("a.b[1]", "index after member"),
        ("a.(b)", "paren after dot"),
        ("1e", "missing exponent"),
        ("1e+", "missing exponent 2"),
        ("-.", "minus dot"),
        ("99999999999999999999", "int overflow"),
        ("1 , 2", "stray comma"),
        ("1 + , 2", "ignored comma"),
        ("a\0b", "NUL inside"),
        ("\0", "NUL only"),
        ("1;;2", "empty sequence items"),
        (";", "only separator"),
        ("x(", "open call"),
        ("[1,2][0,1]", "two index args"),
        ("length()", "no args"),
        ("nosuch(1)", "unknown action"),
        ("toString(err)", "error argument"),
        ("toString([arr, nosuch])", "error inside"),
        ("!1", "not on int"),
        ("ro = 1", "read only"),
        ("ro ?= 1", "read only via ?="),
        ("7 = 1", "assign to constant"),
        ("und = und", "assign from none: deadlock first"),
        ("q = und", "assign from none"),
        ("nn.a.b ?= 1", "member of undefined"),
        ("m.zz ?= 1; m.zz", "create member"),
        ("arr[-1]", "negative index"),
        ("arr[0.5]", "fractional index"),
        ("arr[1.0]", "double index"),
        ("arr['x']", "string index"),
        ("'abc'[0]", "index on string"),
        ("1.x", "member on number?"),
        ("{true:'y', false:'n'}[ i1 == 7 ]", "README ternary"),
        ("{true:'y', false:'n'}[ i1 == 1 ]", "README ternary 2"),
    ]
}

// ---------------------------------------------------------------------------------------------
// entry point

pub fn run(args: &Args, model: &mut Model) -> Report {
    if args.family == "expr-child" {
        child_main(args);
    }
    let c10 = args.family == "c10";
    let cx = Ctx { args, c10 };
    let mut rep = Report::new(
        &args.family,
        if c10 {
            "distinct expression texts (operator chains over all operand kinds) evaluated on implementation and model"
        } else {
            "distinct source texts (well-formed, mutated, arbitrary Unicode) x stores with aliasing, evaluated on implementation and model"
        },
    );
    let std_store = standard_store();

    if let Some(path) = &args.replay {
        let v: Value = serde_json::from_str(&std::fs::read_to_string(path).unwrap_or_default()).unwrap_or(Value::Null);
        let cv = v.get("case").cloned().unwrap_or(v.clone());
        match Case::from_json(&cv) {
            Some(c) => {
                let _ = check_case(&cx, &c, model, &mut rep);
            }
            None => rep.disagree(json!({"replay": path, "note": "replay file has no case (store + steps)"})),
        }
        return rep;
    }

    if c10 {
        let mut p0 = Prng::for_case(args.seed, 0);
        for (ch, name) in c10_corpus() {
            check_chain(&cx, &ch, &std_store, &format!("corpus:{}", name), model, &mut rep, &mut p0);
        }
        int_compare_corpus(&cx, &std_store, model, &mut rep);
        // operator table: every binary operator on every pair of operand kinds
        let kinds: Vec<&str> = KIND_ATOMS.to_vec();
        for (oi, _) in BIN_OPS.iter().enumerate() {
            for a in &kinds {
                for b in &kinds {
                    let ch = Chain { first: Item::Atom(a.to_string()), rest: vec![(oi, false, Item::Atom(b.to_string()))] };
                    table_case(&cx, &ch, &std_store, model, &mut rep);
                }
            }
        }
        // operator sequences: all of length ≤ 4 in thorough, sampled in quick
        let mut index = 1u64;
        let lens: &[usize] = &[2, 3, 4];
        for &n in lens {
            let total = (BIN_OPS.len() as u64).pow(n as u32);
            let take: u64 = if args.thorough { total } else { [0, 0, 169, 700, 900][n] };
            for k in 0..take {
                let mut p = Prng::for_case(args.seed, index);
                index += 1;
                let code = if take == total { k } else { p.below(total) };
                let mut c = code;
                let mut ops = Vec::new();
                for _ in 0..n {
                    ops.push((c % BIN_OPS.len() as u64) as usize);
                    c /= BIN_OPS.len() as u64;
                }
                // operands that suit their neighbours: booleans next to & |, numbers elsewhere
                let boolish = |o: usize| BIN_OPS[o].0 == "And" || BIN_OPS[o].0 == "Or";
                let mut item = |p: &mut Prng, l: Option<usize>, r: Option<usize>| -> Item {
                    let b = l.map(boolish).unwrap_or(false) || r.map(boolish).unwrap_or(false);
                    if b && p.chance(3, 4) {
                        Item::Atom(p.pick(BOOL_ATOMS).to_string())
                    } else {
                        gen_item(p, if n <= 3 { 1 } else { 0 }, true)
                    }
                };
                let first = item(&mut p, None, Some(ops[0]));
                let mut rest = Vec::new();
                for i in 0..n {
                    let it = item(&mut p, Some(ops[i]), ops.get(i + 1).copied());
                    rest.push((ops[i], false, it));
                }
                let ch = Chain { first, rest };
                if args.thorough && n == 4 {
                    // value + reference only (the variants are covered by the sampled part)
                    table_case(&cx, &ch, &std_store, model, &mut rep);
                } else {
                    check_chain(&cx, &ch, &std_store, "gen:sequence", model, &mut rep, &mut p);
                }
            }
        }
        // larger chains, all operand kinds, nesting, assignments
        let n_big = if args.thorough { 8000 } else { 600 };
        for _ in 0..n_big {
            let mut p = Prng::for_case(args.seed, index);
            index += 1;
            let ch = if p.chance(1, 5) {
                gen_assign_chain(&mut p)
            } else {
                let nops = p.range(1, 7) as usize;
                let bias = p.chance(1, 2);
                gen_chain(&mut p, 2, nops, bias)
            };
            check_chain(&cx, &ch, &std_store, "gen:chain", model, &mut rep, &mut p);
        }
    } else {
        for (text, name) in c11_corpus() {
            let c = Case::x(&format!("corpus:{}", name), &std_store, text);
            rep.nontrivial.insert(text.to_string());
            check_lex_parse(text, model, &mut rep);
            let _ = check_case(&cx, &c, model, &mut rep);
        }
        // what is left of P4-equal: `==` on two cyclic values, built by expressions alone
        {
            let c = Case {
                origin: "corpus:P4:cyclic==".to_string(),
                store: std_store.clone(),
                steps: vec![
                    Step::X("arr1[0] = arr1".to_string()),
                    Step::X("y ?= [0]".to_string()),
                    Step::X("y[0] = y".to_string()),
                    Step::X("arr1 == y".to_string()),
                ],
                chain: None,
                expect_bool: None,
            };
            let _ = check_case(&cx, &c, model, &mut rep);
        }
        deep_nesting(&cx, model, &mut rep);
        let n = if args.thorough { 40000 } else { 3000 };
        for index in 1..=n {
            let mut p = Prng::for_case(args.seed, index);
            let (text, kind) = match p.below(10) {
                0..=2 => {
                    let nops = p.range(0, 4) as usize;
                    let ch = if p.chance(1, 4) { gen_assign_chain(&mut p) } else { gen_chain(&mut p, 2, nops, false) };
                    let mut k = 0;
                    (ch.render(if p.chance(1, 3) { Layout::Tight } else { Layout::Plain }, &mut k), "grammar")
                }
                3..=6 => {
                    let nops = p.range(0, 4) as usize;
                    let ch = if p.chance(1, 4) { gen_assign_chain(&mut p) } else { gen_chain(&mut p, 2, nops, false) };
                    let mut k = 0;
                    let t = ch.render(Layout::Plain, &mut k);
                    (mutate(&mut p, &t), "mutated")
                }
                7 => (random_unicode(&mut p), "unicode"),
                8 => (vocab_soup(&mut p), "soup"),
                _ => {
                    // long but flat
                    let reps = p.range(50, 400) as usize;
                    let unit = *p.pick(&["1 + ", "a.", "[1],", "'x' + ", "!", "1;", "-"]);
                    (format!("{}1", unit.repeat(reps)), "long")
                }
            };
            rep.count(&format!("text:{}", kind));
            rep.count(&format!("len:{}", bucket(text.chars().count().max(1))));
            rep.nontrivial.insert(text.clone());
            check_lex_parse(&text, model, &mut rep);
            let aliased = p.chance(1, 2) && !ends_with_operator_char(&text);
            let store = if aliased { gen_alias_store(&mut p) } else { std_store.clone() };
            rep.count(if aliased { "store:aliased" } else { "store:standard" });
            let steps = match p.below(8) {
                0 => vec![Step::E(1 + p.below(3) as usize, text.clone())],
                1 => vec![Step::C(1 + p.below(3) as usize, text.clone())],
                2 if !ends_with_operator_char(&text) => vec![Step::A(0, "q".to_string(), 7, text.clone())],
                _ => vec![Step::X(text.clone())],
            };
            let steps = if ends_with_operator_char(&text) || nesting_depth(&text) > 200 { vec![Step::X(text.clone())] } else { steps };
            let c = Case { origin: format!("gen:{}", kind), store, steps, chain: None, expect_bool: None };
            if rep.samples.len() < 6 && index % 97 == 0 {
                rep.sample(c.to_json());
            }
            let _ = check_case(&cx, &c, model, &mut rep);
            if rep.extra.contains_key("aborted") {
                break;
            }
        }
    }
    rep
}

/// value (+ reference) only, no variants — for the big sweeps
fn table_case(cx: &Ctx, ch: &Chain, store: &StoreD, model: &mut Model, rep: &mut Report) {
    let mut k = 0;
    let text = ch.render(Layout::Plain, &mut k);
    rep.nontrivial.insert(text.clone());
    for (n, _) in ch.ops() {
        rep.count(&format!("op:{}", n));
    }
    rep.count(&format!("chain:ops={}", ch.rest.len()));
    let c = Case { origin: "gen:table".to_string(), store: store.clone(), steps: vec![Step::X(text.clone())], chain: Some(ch.clone()), expect_bool: None };
    let out = match check_case(cx, &c, model, rep) {
        Some(o) => o,
        None => return,
    };
    if ch.rest.len() < 2 || out.hung || out.outs[0].starts_with("panic:") {
        return;
    }
    let reply = model.ask(&format!("expr oracle {} {}", store.wire(), ch.wire()));
    let mut it = reply.splitn(3, ' ');
    let r_out = it.next().unwrap_or("").to_string();
    let r_dump = it.next().unwrap_or("").to_string();
    let r_tree = it.next().unwrap_or("").to_string();
    if r_dump.contains(UNMODELLED) || r_out == "bad-op" {
        rep.count("oracle-skipped");
        return;
    }
    let impl_dump = out.dump.clone().unwrap_or_default();
    if out.outs[0] == r_out && (r_dump == "gone" || dumps_agree(&impl_dump, &r_dump, true)) {
        rep.count("oracle:agree");
    } else {
        let parsed = parse_impl(&text);
        let sig = match ch.regroup_site() {
            Some(op) if parsed.starts_with("ok ") && parsed[3..] != r_tree => format!("C10:right-assoc:{}", op),
            _ => "C10:value-differs-from-reference".to_string(),
        };
        rep.count(&format!("oracle:{}", sig));
        rep.oracle_fail(&sig, json!({"case": c.to_json(), "impl": {"out": out.outs[0], "dump": impl_dump, "tree": parsed}, "reference": {"out": r_out, "dump": r_dump, "tree": r_tree}}));
    }
}

/// integer comparisons against exact `i64` comparison (computed here, outside model and engine)
fn int_compare_corpus(cx: &Ctx, store: &StoreD, model: &mut Model, rep: &mut Report) {
    let vals: &[i64] = &[0, 1, -1, 7, 9007199254740992, 9007199254740993, -9007199254740993, i64::MAX, i64::MAX - 1, i64::MIN, i64::MIN + 1];
    for &a in vals {
        for &b in vals {
            for (sym, f) in [("<", (|x: i64, y: i64| x < y) as fn(i64, i64) -> bool), ("<=", |x, y| x <= y), (">", |x, y| x > y), (">=", |x, y| x >= y), ("==", |x, y| x == y)] {
                let text = format!("{} {} {}", a, sym, b);
                let c = Case::x("corpus:int-compare", store, &text);
                rep.nontrivial.insert(text.clone());
                if let Some(out) = check_case(cx, &c, model, rep) {
                    let want = format!("0|{}", if f(a, b) { "b1" } else { "b0" });
                    let got = out.dump.clone().unwrap_or_default();
                    // result cell is the first cell of the dump
                    let res_cell = got.split('|').nth(2).and_then(|cs| cs.split(';').next()).unwrap_or("");
                    let ok = out.outs[0] == "ok" && res_cell == if f(a, b) { "b1" } else { "b0" };
                    let _ = want;
                    if ok {
                        rep.count("int-compare:exact");
                    } else {
                        rep.count("int-compare:wrong");
                        rep.oracle_fail(
                            "C10:int-compare:beyond-2^53",
                            json!({"case": c.to_json(), "expected": f(a, b), "impl_result_cell": res_cell, "note": "integers are compared as f64"}),
                        );
                    }
                }
            }
        }
    }
}

/// deeply nested inputs, in a child process with a 2 MiB worker stack (a stack overflow aborts)
fn deep_nesting(cx: &Ctx, model: &mut Model, rep: &mut Report) {
    let depths: &[usize] = if cx.args.thorough { &[250, 1000, 3000, 10000, 30000, 100000] } else { &[250, 1000, 10000, 100000] };
    for &d in depths {
        for (open, close, name) in [("(", ")", "paren"), ("[", "]", "array"), ("!", "", "not"), ("{1:", "}", "map")] {
            let text = format!("{}1{}", open.repeat(d), close.repeat(d));
            let c = Case::x(&format!("deep:{}:{}", name, d), &standard_store(), &text);
            rep.count(&format!("deep:{}", name));
            if d <= 1000 {
                let _ = check_case(cx, &c, model, rep);
                continue;
            }
            // beyond that the compiled model itself would need a big stack: implementation only
            rep.evaluations += 1;
            let got = run_in_child(cx.args, &text, Duration::from_secs(60));
            rep.count(&format!("child:{}", got.split(':').next().unwrap_or("")));
            if got.starts_with("signal:") || got.starts_with("exit:") || got == "timeout" {
                rep.count("outcome:crash");
                if !cx.c10 {
                    rep.oracle_fail(
                        &format!("C11:stack-overflow:nesting>={}", bucket(d)),
                        json!({"case": case_json_short(&c), "impl": got, "nesting": d, "kind": name}),
                    );
                }
            } else if got.starts_with("panic:") && !cx.c10 {
                rep.oracle_fail(&format!("C11:panic:{}", &got[6..]), json!({"case": case_json_short(&c), "impl": got}));
            }
        }
    }
}
