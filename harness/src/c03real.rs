//! C03 on the real data models: the routes by which a session sends an event TO ITSELF all end in
//! its EXTERNAL queue (no target, `#_scxml_<own session id>`), except `#_internal` and `<raise>`,
//! which end in the internal queue; internal events are processed before external ones, external
//! ones in the order they were sent.
use crate::obs::{mark_actions, RecTracer};
use crate::report::Report;
use rufsm::fsm::{self, Event, FinishMode, EVENT_CANCEL_SESSION};
use rufsm::fsm_executor::FsmExecutor;
use serde_json::json;
use std::time::{Duration, Instant};

fn doc(dm: &str, variant: usize) -> (String, Vec<&'static str>) {
    let own = if dm == "ecmascript" { "'#_scxml_' + _sessionid" } else { "'#_scxml_' + _sessionid" };
    // the sends of the entry block, in this order; expected processing order on the right
    let (sends, expected): (String, Vec<&'static str>) = match variant {
        0 => (
            format!("<send event=\"first\"/><send event=\"second\" targetexpr=\"{}\"/><raise event=\"internal\"/>", own),
            vec!["internal", "first", "second"],
        ),
        1 => (
            format!("<send event=\"first\" targetexpr=\"{}\"/><send event=\"second\"/><send event=\"third\" target=\"#_internal\"/>", own),
            vec!["third", "first", "second"],
        ),
        _ => (
            format!("<raise event=\"internal\"/><send event=\"first\" targetexpr=\"{}\"/><send event=\"second\" targetexpr=\"{}\"/><send event=\"third\"/>", own, own),
            vec!["internal", "first", "second", "third"],
        ),
    };
    let xml = format!(
        "<scxml xmlns=\"http://www.w3.org/2005/07/scxml\" version=\"1.0\" datamodel=\"{dm}\" name=\"m\" initial=\"s0\">\
         <state id=\"s0\"><onentry>{sends}</onentry>\
           <transition event=\"*\"><script>mark(_event.name, _event.type)</script></transition></state></scxml>",
        dm = dm,
        sends = sends
    );
    (xml, expected)
}

pub fn run(rep: &mut Report) {
    for dm in ["rfsm-expression", "ecmascript"] {
        for variant in 0..3 {
            rep.evaluations += 1;
            rep.count("real_self_send_routes");
            let (xml, expected) = doc(dm, variant);
            let fsm = match crate::int::parse(&xml) {
                Ok(f) => f,
                Err(e) => {
                    rep.disagree(json!({"xml": xml, "reader_error": e}));
                    continue;
                }
            };
            let mut fsm = fsm;
            let (tracer, log) = RecTracer::new(true);
            fsm.tracer = Box::new(tracer);
            let executor = FsmExecutor::new_without_io_processor();
            let mut session = fsm::start_fsm_with_data_and_finish_mode(fsm, mark_actions(&log), Box::new(executor), &[], FinishMode::KEEP_CONFIGURATION);
            let h = session.thread.take().unwrap();
            let marks = |log: &crate::obs::Log| -> Vec<String> {
                log.lock().unwrap_or_else(|e| e.into_inner()).iter().filter_map(|l| l.strip_prefix("mark ").map(|r| r.split(" cfg=").next().unwrap_or("").to_string())).collect()
            };
            let s = Instant::now();
            while marks(&log).len() < expected.len() && s.elapsed() < Duration::from_secs(3) && !h.is_finished() {
                std::thread::sleep(Duration::from_millis(1));
            }
            std::thread::sleep(Duration::from_millis(20));
            let _ = session.sender.send(Box::new(Event::new_simple(EVENT_CANCEL_SESSION)));
            let s2 = Instant::now();
            while !h.is_finished() && s2.elapsed() < Duration::from_secs(5) {
                std::thread::sleep(Duration::from_millis(1));
            }
            let seen = marks(&log);
            let names: Vec<String> = seen.iter().map(|m| m.split('|').next().unwrap_or("").to_string()).collect();
            let types: Vec<String> = seen.iter().map(|m| m.split('|').nth(1).unwrap_or("").to_string()).collect();
            let info = json!({"datamodel": dm, "variant": variant, "xml": xml, "expected_order": expected, "seen": seen});
            if names != expected {
                rep.oracle_fail(&format!("C03:self-send-order:{}", dm), info);
                continue;
            }
            // everything that went through an I/O processor route to the own session is external
            let wrong_type = expected.iter().zip(types.iter()).any(|(n, t)| {
                let want = if *n == "internal" || *n == "third" && variant == 1 { "internal" } else { "external" };
                t != want
            });
            if wrong_type {
                rep.oracle_fail(&format!("C03:self-send-type:{}", dm), info);
                continue;
            }
            rep.nontrivial.insert(format!("c03real|{}|{}", dm, variant));
        }
    }
}
