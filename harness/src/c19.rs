//! C19 — event descriptor matching.  Correspondence of `transitionMatches` (Lean, bytes) with the
//! real XML reader + `Transition::nameMatch`, observed through a real session: one transition with
//! the generated descriptor list, one external event per generated name, "taken" = the
//! `enabledTransitions` the interpreter reports for that event is non-empty.
use crate::obs::{run_session, xml_attr};
use crate::prng::Prng;
use crate::proto::{hex_many, hexs, Model};
use crate::report::Report;
use crate::Args;
use rufsm::actions::ActionWrapper;
use rufsm::fsm::Event;
use rufsm::scxml_reader;
use serde_json::json;
use std::time::Duration;

// (names the platform itself uses are ordinary names for the matching: `trace.<mode>.on`, `done.invoke.<id>`)
const TOKENS: &[&str] = &["a", "ab", "b", "A", "é", "éa", "", "err", "error", "x", "日本", "日", "a*", "e1", "trace", "done", "invoke", "on", "methods"];
const SUFFIX: &[&str] = &["", "", "", ".", ".*", ".*.", "..*", "..", ".*.*"];

fn gen_name(p: &mut Prng) -> String {
    let n = p.range(1, 4);
    (0..n).map(|_| *p.pick(TOKENS)).collect::<Vec<_>>().join(".")
}

/// a descriptor related to `name` (prefix, partial token, extension, case variant) or unrelated
fn gen_desc(p: &mut Prng, name: &str) -> String {
    let toks: Vec<&str> = name.split('.').collect();
    let base = match p.below(10) {
        0 => "*".to_string(),
        1 | 2 | 3 => {
            let k = p.range(1, toks.len() as u64) as usize;
            toks[..k].join(".")
        }
        4 => {
            // cut inside the name at an arbitrary character boundary (partial token)
            let chars: Vec<char> = name.chars().collect();
            let k = p.range(0, chars.len() as u64) as usize;
            chars[..k].iter().collect()
        }
        5 => format!("{}.{}", name, p.pick(TOKENS)),
        6 => name.to_uppercase(),
        7 => format!("{}{}", name, p.pick(TOKENS)),
        _ => gen_name(p),
    };
    let d = format!("{}{}", base, p.pick(SUFFIX));
    if d.is_empty() {
        ".".to_string()
    } else {
        d
    }
}

pub struct Case {
    pub descs: Vec<String>,
    pub names: Vec<String>,
}

pub fn gen_case(p: &mut Prng) -> Case {
    let nn = p.range(4, 12);
    let names: Vec<String> = (0..nn).map(|_| gen_name(p)).collect();
    let nd = p.range(1, 3);
    let descs = (0..nd)
        .map(|_| {
            let n = p.pick(&names).clone();
            gen_desc(p, &n)
        })
        .collect();
    Case { descs, names }
}

/// runs the implementation: for each name, was the transition selected?
pub fn run_impl(c: &Case) -> Result<Vec<bool>, String> {
    let xml = format!(
        "<scxml xmlns=\"http://www.w3.org/2005/07/scxml\" version=\"1.0\" datamodel=\"null\" initial=\"s\">\
         <state id=\"s\"><transition event=\"{}\"/></state></scxml>",
        xml_attr(&c.descs.join(" "))
    );
    let fsm = scxml_reader::parse_from_xml(xml)?;
    let events: Vec<Event> = c.names.iter().map(|n| Event::new_simple(n)).collect();
    let out = run_session(fsm, &events, ActionWrapper::new(), true, Duration::from_secs(20), true);
    if out.panicked || out.timed_out {
        return Err(format!("session panicked={} timed_out={}", out.panicked, out.timed_out));
    }
    // after each `ext <name>` the next `res enabledTransitions=` belongs to that event
    let mut res = Vec::new();
    let mut waiting = false;
    for l in &out.trace {
        if let Some(_n) = l.strip_prefix("ext ") {
            waiting = true;
        } else if let Some(v) = l.strip_prefix("res enabledTransitions=") {
            if waiting {
                res.push(v.trim() != "[]");
                waiting = false;
            }
        }
    }
    if res.len() != c.names.len() {
        return Err(format!("expected {} selections, saw {}", c.names.len(), res.len()));
    }
    Ok(res)
}

pub fn check_case(c: &Case, model: &mut Model, rep: &mut Report, origin: &str) {
    rep.evaluations += 1;
    let imp = match run_impl(c) {
        Ok(v) => v,
        Err(e) => {
            rep.disagree(json!({"origin": origin, "descs": c.descs, "names": c.names, "impl_error": e}));
            rep.oracle_fail(
                &format!("C19:impl-error"),
                json!({"origin": origin, "descs": c.descs, "names": c.names, "error": e}),
            );
            return;
        }
    };
    let ds = hex_many(&c.descs);
    for (i, n) in c.names.iter().enumerate() {
        let m = model.ask(&format!("desc match {} {}", ds, hexs(n)));
        let s = model.ask(&format!("desc spec {} {}", ds, hexs(n)));
        let impl_s = if imp[i] { "1" } else { "0" };
        rep.count(if imp[i] { "pairs_matched" } else { "pairs_unmatched" });
        if !n.is_ascii() || c.descs.iter().any(|d| !d.is_ascii()) {
            rep.count("pairs_non_ascii");
        }
        rep.nontrivial.insert(format!("{}|{}", c.descs.join(" "), n));
        if m != impl_s {
            rep.disagree(json!({"origin": origin, "descs": c.descs, "name": n, "impl": impl_s, "model": m}));
        }
        if s != impl_s {
            rep.oracle_fail(
                &format!("C19:descs={}:name={}", c.descs.join(" "), n),
                json!({"origin": origin, "descs": c.descs, "name": n, "impl_taken": imp[i], "token_prefix_spec": s}),
            );
        }
    }
    rep.sample(json!({"descs": c.descs, "names": c.names, "taken": imp}));
}

pub fn corpus() -> Vec<Case> {
    let mk = |d: &[&str], n: &[&str]| Case {
        descs: d.iter().map(|s| s.to_string()).collect(),
        names: n.iter().map(|s| s.to_string()).collect(),
    };
    vec![
        // the defect found in round 0 (character index used with a byte length)
        mk(&["é"], &["é.x", "éa.b", "é", "éa"]),
        mk(&["日本"], &["日本.x", "日本x.y", "日本"]),
        mk(&["error", "foo"], &["error", "error.send", "error.send.failed", "errors.my.custom", "errorhandler.mistake", "foobar", "foo.bar"]),
        mk(&["e.*", "f."], &["e", "e.x", "ex", "f", "f.g", "fg"]),
        mk(&["*"], &["anything", "a.b.c", ""]),
        mk(&[".*"], &[".x", "x", "", "."]),
        mk(&["a..b"], &["a..b", "a.b", "a..b.c", "a..bc"]),
        // names that look like platform events are matched like any other name
        mk(&["trace", "done.invoke"], &["trace.methods.on", "trace.x", "trace", "tracer.x", "done.invoke.c1", "done.invoke", "done.invoker"]),
        mk(&["*"], &["trace.all.on", "trace.route.changed", "done.invoke.x", "done.state.s", "error.execution"]),
    ]
}

pub fn run(args: &Args, model: &mut Model) -> Report {
    let mut rep = Report::new(
        "c19",
        "case = (descriptor list, name); generated from a token alphabet with shared prefixes, multi-byte \
         characters, empty tokens and case variants; descriptors are token prefixes, partial tokens, extensions, \
         case variants or unrelated, with insignificant-suffix spellings; a case is distinct by its \
         (descriptor list, name) text; all are non-trivial (each needs a real session to decide)",
    );
    if let Some(path) = &args.replay {
        let v: serde_json::Value = serde_json::from_str(&std::fs::read_to_string(path).unwrap()).unwrap();
        let descs: Vec<String> = v["descs"].as_array().unwrap().iter().map(|x| x.as_str().unwrap().to_string()).collect();
        let names: Vec<String> = match v.get("names") {
            Some(ns) if ns.is_array() => ns.as_array().unwrap().iter().map(|x| x.as_str().unwrap().to_string()).collect(),
            _ => vec![v["name"].as_str().unwrap().to_string()],
        };
        check_case(&Case { descs, names }, model, &mut rep, "replay");
        return rep;
    }
    for c in corpus() {
        check_case(&c, model, &mut rep, "corpus");
    }
    let n = if args.thorough { 6000 } else { 400 };
    for i in 0..n {
        let mut p = Prng::for_case(args.seed, i);
        let c = gen_case(&mut p);
        check_case(&c, model, &mut rep, &format!("gen seed={} index={}", args.seed, i));
    }
    rep
}
